"""Reference semantics for the ERE dialect of regex.c, written over an AST from the documented
behaviour (POSIX ERE with REG_NEWLINE on a newline-terminated line; backtracking priority:
alternatives left first, quantifiers greedy, {m,n} as x..x(x(x)?)?).

Two evaluators over the same AST:
  * set semantics   ends(node, i)  -> set of end positions (fix-point for loops)
  * priority        first result of a continuation-passing backtracking search, unlimited depth
Positions are indexes into the list of code points of the line (which includes its '\\n').
"""
import sys

sys.setrecursionlimit(20000)

META = set(".^$[(|)*?+{\\")
CLASSES = {
    "alnum": lambda c: c < 128 and (chr(c).isalnum()),
    "alpha": lambda c: c < 128 and chr(c).isalpha(),
    "blank": lambda c: c in (0x20, 0x09),
    "digit": lambda c: 0x30 <= c <= 0x39,
    "lower": lambda c: 0x61 <= c <= 0x7a,
    "print": lambda c: 0x20 <= c <= 0x7e,
    "punct": lambda c: c < 128 and chr(c) in "][!\"#$%&'()*+,./:;<=>?@\\^_`{|}~-",
    "space": lambda c: c in (0x20, 0x09, 0x0d, 0x0a, 0x0b, 0x0c),
    "upper": lambda c: 0x41 <= c <= 0x5a,
    "word": lambda c: c < 128 and (chr(c).isalnum() or c == 0x5f),
    "xdigit": lambda c: c < 128 and chr(c) in "0123456789abcdefABCDEF",
}


class N:
    __slots__ = ("k", "a", "b", "c", "idx")

    def __init__(self, k, a=None, b=None, c=None):
        self.k, self.a, self.b, self.c, self.idx = k, a, b, c, 0

    def __repr__(self):
        return to_pattern(self)


def lit(s): return N("lit", s)
def anyc(): return N("any")
def brk(neg, items): return N("brk", neg, items)
def bol(): return N("bol")
def eol(): return N("eol")
def wb(): return N("wb")
def we(): return N("we")
def grp(n): return N("grp", n)
def cat(ns): return N("cat", list(ns))
def alt(ns): return N("alt", list(ns))
def rep(n, lo, hi): return N("rep", n, lo, hi)     # hi == -1: unbounded


# ------------------------------------------------------------------ printing
def _esc_lit(s):
    out = []
    for ch in s:
        if ch in META:
            out.append("\\" + ch)
        else:
            out.append(ch)
    return "".join(out)


def _brk_str(n):
    s = "[" + ("^" if n.a else "")
    # ("[" members are printed last: "[" followed by ":" or "=" would open a class name)
    # ("]" members are printed first, where a closing bracket is an ordinary member)
    for it in [x for x in n.b if x == ("c", "]")] + [x for x in n.b if x not in (("c", "["), ("c", "]"))] + [x for x in n.b if x == ("c", "[")]:
        if it[0] == "c":
            s += it[1]
        elif it[0] == "r":
            s += it[1] + "-" + it[2]
        else:
            s += "[:" + it[1] + ":]"
    return s + "]"


def to_pattern(n):
    k = n.k
    if k == "lit":
        return _esc_lit(n.a)
    if k == "any":
        return "."
    if k == "brk":
        return _brk_str(n)
    if k == "bol":
        return "^"
    if k == "eol":
        return "$"
    if k == "wb":
        return "\\<"
    if k == "we":
        return "\\>"
    if k == "grp":
        return "(" + (to_pattern(n.a) if n.a is not None else "") + ")"
    if k == "cat":
        return "".join(to_pattern(x) for x in n.a)
    if k == "alt":
        return "|".join(to_pattern(x) for x in n.a)
    if k == "rep":
        lo, hi = n.b, n.c
        if (lo, hi) == (0, -1):
            q = "*"
        elif (lo, hi) == (1, -1):
            q = "+"
        elif (lo, hi) == (0, 1):
            q = "?"
        elif hi == -1:
            q = "{%d,}" % lo
        elif lo == hi:
            q = "{%d}" % lo
        else:
            q = "{%d,%d}" % (lo, hi)
        return to_pattern(n.a) + q
    raise ValueError(k)


def number_groups(n, start=1):
    """pre-order numbering like rnode_grpnum(); returns number of groups"""
    cnt = [start]

    def walk(x):
        if x is None:
            return
        if x.k == "grp":
            x.idx = cnt[0]
            cnt[0] += 1
            walk(x.a)
        elif x.k in ("cat", "alt"):
            for y in x.a:
                walk(y)
        elif x.k == "rep":
            walk(x.a)
    walk(n)
    return cnt[0] - start


def has(n, pred):
    if n is None:
        return False
    if pred(n):
        return True
    if n.k == "grp":
        return has(n.a, pred)
    if n.k in ("cat", "alt"):
        return any(has(x, pred) for x in n.a)
    if n.k == "rep":
        return has(n.a, pred)
    return False


def nullable(n):
    if n is None:
        return True
    k = n.k
    if k in ("bol", "eol", "wb", "we"):
        return True
    if k in ("lit", "any", "brk"):
        return False
    if k == "grp":
        return nullable(n.a)
    if k == "cat":
        return all(nullable(x) for x in n.a)
    if k == "alt":
        return any(nullable(x) for x in n.a)
    if k == "rep":
        return n.b == 0 or nullable(n.a)
    return False


# ------------------------------------------------------------------ matching context
def _isword(c):
    return c >= 0x80 or (c < 128 and (chr(c).isalnum() or c == 0x5f))


def _fold(c):
    return c + 32 if 0x41 <= c <= 0x5a else c


class Budget(Exception):
    """the priority reference (plain backtracking, like the engine) used more steps than allowed on this input: the case is
    set aside as inconclusive by the harness, never judged"""


PRIO_BUDGET = 400000


class Ctx:
    def __init__(self, line, icase=False, notbol=False, noteol=False):
        """line: str including its terminating newline"""
        self.cps = [ord(ch) for ch in line]
        self.n = len(self.cps)
        self.icase, self.notbol, self.noteol = icase, notbol, noteol
        self.boff = [0]
        for ch in line:
            self.boff.append(self.boff[-1] + len(ch.encode("utf-8")))
        self.memo = {}
        self.steps = 0
        self.nullloop = False       # a loop body matched the empty string (engine recursion goes to the depth limit)

    # --- atoms: return next position or -1
    def m_lit(self, s, i):
        cps = self.cps
        for ch in s:
            if i >= self.n:
                return -1
            a, b = ord(ch), cps[i]
            if self.icase:
                a, b = _fold(a), _fold(b)
            if a != b:
                return -1
            i += 1
        return i

    def m_any(self, i):
        if i >= self.n or self.cps[i] == 10:
            return -1
        return i + 1

    def brk_in(self, items, c):
        # ignore-case: a character is in the set if it or its other case is (ranges and classes are taken as written)
        cs = [c]
        if self.icase and c < 128 and chr(c).isalpha():
            cs.append(c ^ 0x20)
        for it in items:
            for x in cs:
                if it[0] == "c":
                    if x == ord(it[1]):
                        return True
                elif it[0] == "r":
                    if ord(it[1]) <= x <= ord(it[2]):
                        return True
                elif CLASSES[it[1]](x):
                    return True
        return False

    def m_brk(self, node, i):
        if i >= self.n:
            return -1
        c = self.cps[i]
        if c == 10:
            return -1           # no bracket expression matches a newline under REG_NEWLINE (repair of F11b)
        inset = self.brk_in(node.b, c)
        if inset != bool(node.a):
            return i + 1
        return -1

    def a_bol(self, i):
        if i == 0:
            return not self.notbol
        return self.cps[i - 1] == 10 and i < self.n      # not after the newline that ends the string (F11 repair)

    def a_eol(self, i):
        if i == self.n:
            return not self.noteol
        return self.cps[i] == 10

    def a_wb(self, i):
        return (i == 0 or not _isword(self.cps[i - 1])) and i < self.n and _isword(self.cps[i])

    def a_we(self, i):
        return i != 0 and _isword(self.cps[i - 1]) and (i == self.n or not _isword(self.cps[i]))

    def atom(self, n, i):
        """for width>0 atoms: next pos or -1; for assertions: i or -1"""
        k = n.k
        if k == "lit":
            return self.m_lit(n.a, i)
        if k == "any":
            return self.m_any(i)
        if k == "brk":
            return self.m_brk(n, i)
        if k == "bol":
            return i if self.a_bol(i) else -1
        if k == "eol":
            return i if self.a_eol(i) else -1
        if k == "wb":
            return i if self.a_wb(i) else -1
        if k == "we":
            return i if self.a_we(i) else -1
        raise ValueError(k)

    # --- set semantics
    def ends(self, n, i):
        if n is None:
            return frozenset((i,))
        key = (id(n), i)
        r = self.memo.get(key)
        if r is not None:
            return r
        k = n.k
        if k in ("lit", "any", "brk", "bol", "eol", "wb", "we"):
            j = self.atom(n, i)
            r = frozenset((j,)) if j >= 0 else frozenset()
        elif k == "grp":
            r = self.ends(n.a, i)
        elif k == "cat":
            cur = {i}
            for x in n.a:
                nxt = set()
                for p in cur:
                    nxt |= self.ends(x, p)
                cur = nxt
                if not cur:
                    break
            r = frozenset(cur)
        elif k == "alt":
            s = set()
            for x in n.a:
                s |= self.ends(x, i)
            r = frozenset(s)
        elif k == "rep":
            lo, hi = n.b, n.c
            cur = {i}
            for _ in range(lo):
                nxt = set()
                for p in cur:
                    nxt |= self.ends(n.a, p)
                cur = nxt
                if not cur:
                    break
            res = set(cur)
            if cur:
                if hi == -1:
                    frontier = set(cur)
                    while frontier:
                        nxt = set()
                        for p in frontier:
                            nxt |= self.ends(n.a, p)
                        frontier = nxt - res
                        res |= nxt
                else:
                    for _ in range(hi - lo):
                        nxt = set()
                        for p in cur:
                            nxt |= self.ends(n.a, p)
                        cur = nxt
                        if not cur:
                            break
                        res |= cur
            r = frozenset(res)
        else:
            raise ValueError(k)
        self.memo[key] = r
        return r

    # --- priority semantics: generator of (end, caps) in backtracking order
    def prio(self, n, i, caps):
        if n is None:
            yield i, caps
            return
        self.steps += 1
        if self.steps > PRIO_BUDGET:
            raise Budget()
        k = n.k
        if k in ("lit", "any", "brk", "bol", "eol", "wb", "we"):
            j = self.atom(n, i)
            if j >= 0:
                yield j, caps
        elif k == "grp":
            for j, c2 in self.prio(n.a, i, caps):
                c3 = dict(c2)
                c3[n.idx] = (i, j)
                yield j, c3
        elif k == "cat":
            yield from self._cat(n.a, 0, i, caps)
        elif k == "alt":
            for x in n.a:
                yield from self.prio(x, i, caps)
        elif k == "rep":
            yield from self._rep(n, i, caps)

    def _cat(self, xs, idx, i, caps):
        if idx == len(xs):
            yield i, caps
            return
        for j, c2 in self.prio(xs[idx], i, caps):
            yield from self._cat(xs, idx + 1, j, c2)

    def _rep(self, n, i, caps):
        lo, hi = n.b, n.c
        if lo == 0 and hi == 0:
            yield i, caps
            return
        if hi == -1:
            if lo == 0:
                # fork: body (then loop) first, else skip
                yield from self._loop(n.a, i, caps)
                yield i, caps
            else:
                yield from self._times(n.a, lo - 1, i, caps, lambda j, c: self._loop(n.a, j, c))
        else:
            if lo == 0:
                # (x(x(x)?)?)?
                yield from self._opt_chain(n.a, hi, i, caps)
            else:
                yield from self._times(n.a, lo, i, caps, lambda j, c: self._opt_chain(n.a, hi - lo, j, c))

    def _times(self, x, cnt, i, caps, then):
        if cnt == 0:
            yield from then(i, caps)
            return
        for j, c2 in self.prio(x, i, caps):
            yield from self._times(x, cnt - 1, j, c2, then)

    def _loop(self, x, i, caps):
        """one mandatory iteration of x, then greedily more"""
        for j, c2 in self.prio(x, i, caps):
            if j == i:
                self.nullloop = True
                yield j, c2         # empty iteration: do not descend again (the engine would recurse to its depth limit)
                continue
            yield from self._loop(x, j, c2)
            yield j, c2

    def _opt_chain(self, x, cnt, i, caps):
        """cnt nested optional copies: (x(x..)?)? ; every fork falls through to the end"""
        if cnt == 0:
            yield i, caps
            return
        for j, c2 in self.prio(x, i, caps):
            yield from self._opt_chain(x, cnt - 1, j, c2)
        yield i, caps


class _Depth:
    """The engine's search replayed fork by fork, to learn how deeply it has to nest: re_rec() recurses for the first branch of
    every fork (alternative but the last, every iteration of * + {m,}, every optional copy of ? {m,n}) and keeps that level until
    the whole rest of the pattern has matched, so the depth of a path is the number of first branches taken along it."""

    def __init__(self, ctx):
        self.c = ctx
        self.maxdep = 0
        self.steps = 0
        self.nullloop = False

    def dp(self, n, i, d):
        if n is None:
            yield i, d
            return
        self.steps += 1
        if self.steps > PRIO_BUDGET:
            raise Budget()
        if d > self.maxdep:
            self.maxdep = d
        k = n.k
        if k in ("lit", "any", "brk", "bol", "eol", "wb", "we"):
            j = self.c.atom(n, i)
            if j >= 0:
                yield j, d
        elif k == "grp":
            yield from self.dp(n.a, i, d)
        elif k == "cat":
            yield from self.cat(n.a, 0, i, d)
        elif k == "alt":
            last = len(n.a) - 1
            for idx, x in enumerate(n.a):
                yield from self.dp(x, i, d + (1 if idx < last else 0))
        elif k == "rep":
            lo, hi = n.b, n.c
            if lo == 0 and hi == 0:
                yield i, d
            elif hi == -1:
                if lo == 0:
                    yield from self.loop(n.a, i, d + 1)
                    yield i, d
                else:
                    yield from self.times(n.a, lo, i, d, lambda j, dd: self.more(n.a, j, dd))
            elif lo == 0:
                yield from self.opt(n.a, hi, i, d)
            else:
                yield from self.times(n.a, lo, i, d, lambda j, dd: self.opt(n.a, hi - lo, j, dd))

    def cat(self, xs, idx, i, d):
        if idx == len(xs):
            yield i, d
            return
        for j, d2 in self.dp(xs[idx], i, d):
            yield from self.cat(xs, idx + 1, j, d2)

    def times(self, x, cnt, i, d, then):
        if cnt == 0:
            yield from then(i, d)
            return
        for j, d2 in self.dp(x, i, d):
            yield from self.times(x, cnt - 1, j, d2, then)

    def more(self, x, i, d):
        yield from self.loop(x, i, d + 1)
        yield i, d

    def loop(self, x, i, d):
        for j, d2 in self.dp(x, i, d):
            if j == i:
                self.nullloop = True        # an empty iteration: the engine loops in place down to its depth limit
                yield j, d2
                continue
            yield from self.loop(x, j, d2 + 1)
            yield j, d2

    def opt(self, x, cnt, i, d):
        if cnt == 0:
            yield i, d
            return
        for j, d2 in self.dp(x, i, d + 1):
            yield from self.opt(x, cnt - 1, j, d2)
        yield i, d


def max_fork_depth(root, ctx):
    """deepest nesting of first-branch forks the engine's search reaches on this line before it stops (first match or end of line);
    None when a loop body can match the empty string (the engine then recurses to its limit whatever the line)"""
    dm = _Depth(ctx)
    for s in range(0, ctx.n + 1 if ctx.n else 0):
        for _e, _d in dm.dp(root, s, 0):
            return None if dm.nullloop else dm.maxdep
    return None if dm.nullloop else dm.maxdep


def search_prio(root, ctx, start=0, line_mode=False):
    """first match in the engine's order: leftmost start (>= start), then backtracking priority.
    returns (start, end, caps) or None.  line_mode: ctx holds a line without its terminator and every
    position 0..n is a candidate start (editor-level reference)."""
    for s in range(start, ctx.n + 1 if (ctx.n or line_mode) else 0):     # regexec() also tries the position of the terminating NUL of a non-empty string
        if not ctx.ends(root, s):
            continue        # no parse at all from here (memoised set semantics, polynomial): do not backtrack through the failures
        for e, caps in ctx.prio(root, s, {}):
            return s, e, caps
    return None


def search_set(root, ctx):
    """leftmost start having any match, with the set of its possible ends; or None"""
    for s in range(ctx.n + 1 if ctx.n else 0):
        es = ctx.ends(root, s)
        if es:
            return s, es
    return None
