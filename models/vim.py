"""Reference semantics of neatvi's vi mode over code points and display columns.

Written from the property statements (C07/C08) and the documented vi behaviour; where those are silent
the behaviour is calibrated to the unchanged tree (marked CAL).  Lines are Python strings without their
terminator; left-to-right text only (no right-to-left letters: visual neighbours are then logical ones).
"""


def kind(ch):
    """word class of a character: 0 blank, 1 word (alnum, _, non-ASCII), 2 punctuation"""
    if ch == "":
        return 2
    c = ord(ch)
    if c <= 0x7f and ch in " \t\n\r\v\f":
        return 0
    if c > 0x7f or ch.isalnum() or ch == "_":
        return 1
    return 2


def isspace(ch):
    return ch != "" and ord(ch) <= 0x7f and ch in " \t\n\r\v\f"


class Vi:
    def __init__(self, lines, rows, tables):
        self.ln = list(lines)
        self.row = 0
        self.off = 0
        self.xrows = rows - 1
        self.top = 0
        self.t = tables
        self.col = 0              # remembered column for j/k
        self.pcol = 0
        self.charlast = None
        self.charcmd = None
        self.marks = {}
        self.col = self.off2col(0, 0)

    # ------------------------------------------------------------ line helpers (a line is its text + '\n')
    def full(self, r):
        return self.ln[r] + "\n" if 0 <= r < len(self.ln) else None

    def slen(self, r):
        f = self.full(r)
        return len(f) if f is not None else 0

    def chr(self, r, o):
        f = self.full(r)
        if f is None or o < 0 or o >= len(f):
            return ""
        return f[o]

    def eol(self, r):
        n = self.slen(r)
        return n - 1 if n else 0

    def noeol(self, r, o):
        f = self.full(r)
        n = len(f) if f is not None else 0
        if o >= n:
            o = max(0, n - 1)
        return o - 1 if (o > 0 and f is not None and f[o] == "\n") else o

    def indents(self, r):
        f = self.full(r)
        if f is None:
            return 0
        o = 0
        while o < len(f) and isspace(f[o]):
            o += 1
        return o

    def positions(self, r):
        f = self.full(r)
        pos = []
        col = 0
        for ch in f:
            pos.append(col)
            col += self.t.cwid(ord(ch), col)
        pos.append(col)
        return pos

    def off2col(self, r, o):
        f = self.full(r)
        if f is None:
            return 0
        pos = self.positions(r)
        return pos[o] if o < len(f) else 0

    def col2off(self, r, c):
        f = self.full(r)
        if f is None:
            return 0
        pos = self.positions(r)
        best = 0
        found = False
        for i in range(len(f)):
            if pos[i] <= c:
                if not found or pos[i] >= pos[best]:
                    best = i
                    found = True
        return best if found else 0

    # ------------------------------------------------------------ stepping over the buffer (mot.c)
    def nxt(self, d, r, o):
        """one character step across lines; returns (ok, r, o)"""
        if d < 0 and r >= len(self.ln):
            r = max(0, len(self.ln) - 1)
        f = self.full(r)
        if f is not None and 0 <= o + d < len(f):
            return True, r, o + d
        if self.full(r + d) is None:
            return False, r, o
        r += d
        return True, r, (0 if d > 0 else self.eol(r))

    def wordlast(self, k, d, r, o):
        if not k or not (kind(self.chr(r, o)) & k):
            return False, r, o
        while kind(self.chr(r, o)) & k:
            ok, r, o = self.nxt(d, r, o)
            if not ok:
                return True, r, o
        if not (kind(self.chr(r, o)) & k):
            _, r, o = self.nxt(-d, r, o)
        return False, r, o

    def wordbeg(self, big, d, r, o):
        _, r, o = self.wordlast(3 if big else kind(self.chr(r, o)), d, r, o)
        nl = 1 if self.chr(r, o) == "\n" else 0
        ok, r, o = self.nxt(d, r, o)
        if not ok:
            return True, r, o
        while isspace(self.chr(r, o)):
            nl += self.chr(r, o) == "\n"
            if nl == 2:
                return False, r, o
            ok, r, o = self.nxt(d, r, o)
            if not ok:
                return True, r, o
        return False, r, o

    def wordend(self, big, d, r, o):
        nl = 0
        if not isspace(self.chr(r, o)):
            ok, r, o = self.nxt(d, r, o)
            if not ok:
                return True, r, o
            nl = 1 if (d < 0 and self.chr(r, o) == "\n") else 0
        nl += 1 if (d > 0 and self.chr(r, o) == "\n") else 0
        while isspace(self.chr(r, o)):
            ok, r, o = self.nxt(d, r, o)
            if not ok:
                return True, r, o
            nl += self.chr(r, o) == "\n"
            if nl == 2:
                if d < 0:
                    _, r, o = self.nxt(-d, r, o)
                return False, r, o
        failed, r, o = self.wordlast(3 if big else kind(self.chr(r, o)), d, r, o)
        return failed, r, o

    def findchar(self, ch, cmd, n, r, o):
        f = self.full(r)
        if f is None:
            return None
        d = 1 if cmd in "ft" else -1
        if n < 0:
            d, n = -d, -n
        p = min(o, len(f))          # position len(f) is the end of the string

        def step(p, d):
            if d < 0:
                if p == 0:
                    return None
                return p - 1
            p2 = p + 1 if p < len(f) else p
            if p2 >= len(f):
                return None
            return p2
        while n > 0:
            q = step(p, d)
            if q is None:
                # the implementation has already moved its pointer when it hits the end going forward; nothing is reported
                return None
            p = q
            if f[p] == ch:
                n -= 1
        if cmd in "tT":
            q = step(p, -d)
            if q is not None:
                p = q
            elif -d > 0:
                p = min(p + 1, len(f))
        return p

    def pair(self, r, o):
        pairs = "()[]{}"
        while self.chr(r, o) != "" and self.chr(r, o) not in pairs:
            o += 1
        c = self.chr(r, o)
        if c == "":
            return None
        idx = pairs.index(c)
        d = -1 if idx & 1 else 1
        dep = 1
        while True:
            ok, r, o = self.nxt(d, r, o)
            if not ok:
                return None
            ch = self.chr(r, o)
            if ch == pairs[idx ^ 1]:
                dep -= 1
            if ch == pairs[idx]:
                dep += 1
            if dep == 0:
                return r, o

    def paragraph(self, d, r):
        n = len(self.ln)
        while 0 <= r < n and self.ln[r] == "":
            r += d
        while 0 <= r < n and self.ln[r] != "":
            r += d
        return max(0, min(r, n - 1))

    # ------------------------------------------------------------ motions
    def motion(self, key, cnt_given, arg=None):
        """returns (mv, row, off) with off = -1 for line motions, or None when the motion fails"""
        n = len(self.ln)
        cnt = cnt_given if cnt_given else 1
        r, o = self.row, self.noeol(self.row, self.off)
        if key in ("\n", "+", "j"):
            return key, max(0, min(r + cnt, n - 1)), -1
        if key in ("-", "k"):
            return key, max(r - cnt, 0), -1
        if key == "_":
            return key, max(0, min(r + cnt - 1, n - 1)), -1
        if key == "'":
            if arg not in self.marks:
                return None
            return key, max(0, self.marks[arg][0]), -1
        if key == "G":
            return key, max(0, (cnt - 1) if cnt_given else n - 1), -1
        if key == "H":
            return key, max(0, min(self.top + cnt - 1, n - 1)), -1
        if key == "L":
            return key, max(0, min(self.top + self.xrows - 1 - cnt + 1, n - 1)), -1
        if key == "M":
            return key, max(0, min(self.top + self.xrows // 2, n - 1)), -1
        if key in "fFtT":
            self.charlast, self.charcmd = arg, key
            p = self.findchar(arg, key, cnt, r, o)
            return None if p is None else (key, r, p)
        if key == ";":
            if self.charlast is None:
                return None
            p = self.findchar(self.charlast, self.charcmd, cnt, r, o)
            return None if p is None else (key, r, p)
        if key == ",":
            if self.charlast is None:
                return None
            p = self.findchar(self.charlast, self.charcmd, -cnt, r, o)
            return None if p is None else (key, r, p)
        if key == "h":
            f = self.full(r)
            for _ in range(cnt):
                if f is None or o - 1 < 0:
                    break
                o -= 1
            return key, r, o
        if key == "l":
            f = self.full(r)
            for _ in range(cnt):
                if f is None or o + 1 >= len(f) or f[o + 1] == "\n":
                    break
                o += 1
            return key, r, o
        if key in "wWbBeE":
            for _ in range(cnt):
                if key in "wW":
                    failed, r, o = self.wordbeg(key == "W", 1, r, o)
                else:
                    failed, r, o = self.wordend(key in "BE", 1 if key in "eE" else -1, r, o)
                if failed:
                    break
            return key, r, o
        if key in "{}":
            for _ in range(cnt):
                r = self.paragraph(1 if key == "}" else -1, r)
                o = 0
            return key, r, 0
        if key == "0":
            return key, r, 0
        if key == "^":
            return key, r, self.indents(r)
        if key == "$":
            return key, r, self.eol(r)
        if key == "|":
            self.pcol = cnt - 1
            return key, r, self.col2off(r, cnt - 1)
        if key == " ":
            for _ in range(cnt):
                if self.full(r) is None or o + 1 >= self.slen(r):
                    break
                o += 1
            return key, r, o
        if key in ("\x7f", "\x08"):
            for _ in range(cnt):
                if o - 1 < 0 or self.full(r) is None:
                    break
                o -= 1
            return key, r, o
        if key == "`":
            if arg not in self.marks:
                return None
            return key, self.marks[arg][0], self.marks[arg][1]
        if key == "%":
            p = self.pair(r, o)
            return None if p is None else (key, p[0], p[1])
        raise ValueError("unmodelled motion " + repr(key))

    def wfix(self):
        n = len(self.ln)
        if self.row < 0 or self.row >= n:
            self.row = n - 1 if n else 0
        if self.top > self.row:
            self.top = max(0, self.row - self.xrows // 2) if self.top - self.xrows // 2 > self.row else self.row
        if self.top + self.xrows <= self.row:
            self.top = self.row - self.xrows // 2 if self.top + self.xrows + self.xrows // 2 <= self.row else self.row - self.xrows + 1
        self.off = self.noeol(self.row, self.off)

    def move(self, key, cnt=0, arg=None):
        """a motion typed as a command of its own; returns False when it failed (cursor unchanged)"""
        res = self.motion(key, cnt, arg)
        if res is None:
            self.wfix()
            return False
        mv, r, o = res
        if mv in "'`GHML{}" or (mv == "%" and o < 0):
            self.marks["'"] = (self.row, self.off)
            self.marks["`"] = (self.row, self.off)
        self.row = r
        if o < 0 and mv not in "jk":
            o = self.indents(self.row) if 0 <= self.row < len(self.ln) else 0
        if mv in "jk":
            o = self.col2off(self.row, self.col)
        if not (0 <= self.row < len(self.ln)):
            # CAL: 9G beyond the end: indentation and column are taken from the non-existent line (0), then the row is clamped
            o = 0
        self.off = self.noeol(self.row, o)
        if mv not in "|jk":
            self.col = self.off2col(self.row, self.off)
        if mv == "|":
            self.col = self.pcol
        self.wfix()
        return True

    def setmark(self, name):
        if len(name) == 1 and name.islower() and name.isascii():
            self.marks[name] = (self.row, self.off)
