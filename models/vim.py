"""Reference semantics of neatvi's vi mode over code points and display columns.

Written from the property statements (C07/C08) and the documented vi behaviour; where those are silent
the behaviour is calibrated to the unchanged tree (marked CAL).  Lines are Python strings without their
terminator.  Right-to-left letters are laid out in the documented visual order (models/bidi.py) when the order /
textdirection / linelimit options ask for it; lines that would need the configured direction-mark patterns raise Unmodelled.
"""
from . import bidi


class Unmodelled(Exception):
    pass



def kind(ch):
    """word class of a character: 0 blank, 1 word (alnum, _, non-ASCII), 2 punctuation"""
    if ch == "":
        return 2
    c = ord(ch)
    if c <= 0x7f and ch in " \t\n\r\v\f":
        return 0
    if c > 0x7f or ch.isalnum() or ch == "_":
        return 1
    return 2


def isspace(ch):
    return ch != "" and ord(ch) <= 0x7f and ch in " \t\n\r\v\f"


class Vi:
    def __init__(self, lines, rows, tables):
        self.ln = list(lines)
        self.row = 0
        self.off = 0
        self.xrows = rows - 1
        self.top = 0
        self.t = tables
        self.col = 0              # remembered column for j/k
        self.pcol = 0
        self.charlast = None
        self.charcmd = None
        self.marks = {}
        self.td = 0               # options textdirection, order, linelimit (defaults of ex.c)
        self.order = 1
        self.lim = 256
        self.col = self.off2col(0, 0)

    # ------------------------------------------------------------ line helpers (a line is its text + '\n')
    def full(self, r):
        return self.ln[r] + "\n" if 0 <= r < len(self.ln) else None

    def slen(self, r):
        f = self.full(r)
        return len(f) if f is not None else 0

    def chr(self, r, o):
        f = self.full(r)
        if f is None or o < 0 or o >= len(f):
            return ""
        return f[o]

    def eol(self, r):
        n = self.slen(r)
        return n - 1 if n else 0

    def noeol(self, r, o):
        f = self.full(r)
        n = len(f) if f is not None else 0
        if o >= n:
            o = max(0, n - 1)
        return o - 1 if (o > 0 and f is not None and f[o] == "\n") else o

    def indents(self, r):
        f = self.full(r)
        if f is None:
            return 0
        o = 0
        while o < len(f) and isspace(f[o]):
            o += 1
        return o

    def context(self, r):
        """base direction of line r (+1 left-to-right)"""
        f = self.full(r)
        return bidi.context(f[:-1] if f and len(f) > 1 else (f or ""), self.td, self.t)

    def visual(self, r):
        """visual index of every character of line r (terminator included)"""
        f = self.full(r)
        n = len(f)
        ident = list(range(n))
        on = n <= self.lim and (self.order == 2 or (self.order == 1 and any(ord(ch) >= 128 for ch in f)))
        if not on:
            return ident
        ctx = self.context(r)
        body = f[:-1]
        if ctx > 0 and not any(ch in self.t.cr2l for ch in body):
            return ident          # CAL: nothing to reverse in a left-to-right line without right-to-left letters
        if any(ch in "\\$`'*[]{}" for ch in body):
            raise Unmodelled("direction marks")
        return bidi.reorder(body, ctx, self.t) + [n - 1]

    def positions(self, r):
        f = self.full(r)
        vis = self.visual(r)
        n = len(f)
        inv = [0] * n
        for i, v in enumerate(vis):
            inv[v] = i
        pos = [0] * (n + 1)
        col = 0
        for v in range(n):
            pos[inv[v]] = col
            col += self.t.cwid(ord(f[inv[v]]), col)
        pos[n] = col
        return pos

    def nextcol(self, r, o, d):
        """ren_next + ren_off: the character displayed immediately to the right (d > 0) or left of character o; None at the line ends"""
        f = self.full(r)
        if f is None:
            return None
        pos = self.positions(r)
        n = len(f)
        cur = pos[o] if o < n else 0
        cand = [pos[i] for i in range(n) if (pos[i] > cur if d > 0 else pos[i] < cur)]
        if not cand:
            return None
        x = min(cand) if d > 0 else max(cand)
        tgt = max(i for i in range(n) if pos[i] == x)
        return None if f[tgt] == "\n" else tgt

    def off2col(self, r, o):
        f = self.full(r)
        if f is None:
            return 0
        pos = self.positions(r)
        return pos[o] if o < len(f) else 0

    def col2off(self, r, c):
        f = self.full(r)
        if f is None:
            return 0
        pos = self.positions(r)
        best = 0
        found = False
        for i in range(len(f)):
            if pos[i] <= c:
                if not found or pos[i] >= pos[best]:
                    best = i
                    found = True
        return best if found else 0

    # ------------------------------------------------------------ stepping over the buffer (mot.c)
    def nxt(self, d, r, o):
        """one character step across lines; returns (ok, r, o)"""
        if d < 0 and r >= len(self.ln):
            r = max(0, len(self.ln) - 1)
        f = self.full(r)
        if f is not None and 0 <= o + d < len(f):
            return True, r, o + d
        if self.full(r + d) is None:
            return False, r, o
        r += d
        return True, r, (0 if d > 0 else self.eol(r))

    def wordlast(self, k, d, r, o):
        if not k or not (kind(self.chr(r, o)) & k):
            return False, r, o
        while kind(self.chr(r, o)) & k:
            ok, r, o = self.nxt(d, r, o)
            if not ok:
                return True, r, o
        if not (kind(self.chr(r, o)) & k):
            _, r, o = self.nxt(-d, r, o)
        return False, r, o

    def wordbeg(self, big, d, r, o):
        _, r, o = self.wordlast(3 if big else kind(self.chr(r, o)), d, r, o)
        nl = 1 if self.chr(r, o) == "\n" else 0
        ok, r, o = self.nxt(d, r, o)
        if not ok:
            return True, r, o
        while isspace(self.chr(r, o)):
            nl += self.chr(r, o) == "\n"
            if nl == 2:
                return False, r, o
            ok, r, o = self.nxt(d, r, o)
            if not ok:
                return True, r, o
        return False, r, o

    def wordend(self, big, d, r, o):
        nl = 0
        if not isspace(self.chr(r, o)):
            ok, r, o = self.nxt(d, r, o)
            if not ok:
                return True, r, o
            nl = 1 if (d < 0 and self.chr(r, o) == "\n") else 0
        nl += 1 if (d > 0 and self.chr(r, o) == "\n") else 0
        while isspace(self.chr(r, o)):
            ok, r, o = self.nxt(d, r, o)
            if not ok:
                return True, r, o
            nl += self.chr(r, o) == "\n"
            if nl == 2:
                if d < 0:
                    _, r, o = self.nxt(-d, r, o)
                return False, r, o
        failed, r, o = self.wordlast(3 if big else kind(self.chr(r, o)), d, r, o)
        return failed, r, o

    def findchar(self, ch, cmd, n, r, o):
        f = self.full(r)
        if f is None:
            return None
        d = 1 if cmd in "ft" else -1
        if n < 0:
            d, n = -d, -n
        p = min(o, len(f))          # position len(f) is the end of the string

        def step(p, d):
            if d < 0:
                if p == 0:
                    return None
                return p - 1
            p2 = p + 1 if p < len(f) else p
            if p2 >= len(f):
                return None
            return p2
        while n > 0:
            q = step(p, d)
            if q is None:
                # the implementation has already moved its pointer when it hits the end going forward; nothing is reported
                return None
            p = q
            if f[p] == ch:
                n -= 1
        if cmd in "tT":
            q = step(p, -d)
            if q is not None:
                p = q
            elif -d > 0:
                p = min(p + 1, len(f))
        return p

    def pair(self, r, o):
        pairs = "()[]{}"
        while self.chr(r, o) != "" and self.chr(r, o) not in pairs:
            o += 1
        c = self.chr(r, o)
        if c == "":
            return None
        idx = pairs.index(c)
        d = -1 if idx & 1 else 1
        dep = 1
        while True:
            ok, r, o = self.nxt(d, r, o)
            if not ok:
                return None
            ch = self.chr(r, o)
            if ch == pairs[idx ^ 1]:
                dep -= 1
            if ch == pairs[idx]:
                dep += 1
            if dep == 0:
                return r, o

    def paragraph(self, d, r):
        n = len(self.ln)
        while 0 <= r < n and self.ln[r] == "":
            r += d
        while 0 <= r < n and self.ln[r] != "":
            r += d
        return max(0, min(r, n - 1))

    # ------------------------------------------------------------ motions
    def motion(self, key, cnt_given, arg=None):
        """returns (mv, row, off) with off = -1 for line motions, or None when the motion fails"""
        n = len(self.ln)
        cnt = cnt_given if cnt_given else 1
        r, o = self.row, self.noeol(self.row, self.off)
        if key in ("\n", "+", "j"):
            return key, max(0, min(r + cnt, n - 1)), -1
        if key in ("-", "k"):
            return key, max(r - cnt, 0), -1
        if key == "_":
            return key, max(0, min(r + cnt - 1, n - 1)), -1
        if key == "'":
            if arg not in self.marks:
                return None
            return key, max(0, self.marks[arg][0]), -1
        if key == "G":
            return key, max(0, (cnt - 1) if cnt_given else n - 1), -1
        if key == "H":
            return key, max(0, min(self.top + cnt - 1, n - 1)), -1
        if key == "L":
            return key, max(0, min(self.top + self.xrows - 1 - cnt + 1, n - 1)), -1
        if key == "M":
            return key, max(0, min(self.top + self.xrows // 2, n - 1)), -1
        if key in "fFtT":
            self.charlast, self.charcmd = arg, key
            p = self.findchar(arg, key, cnt, r, o)
            return None if p is None else (key, r, p)
        if key == ";":
            if self.charlast is None:
                return None
            p = self.findchar(self.charlast, self.charcmd, cnt, r, o)
            return None if p is None else (key, r, p)
        if key == ",":
            if self.charlast is None:
                return None
            p = self.findchar(self.charlast, self.charcmd, -cnt, r, o)
            return None if p is None else (key, r, p)
        if key in "hl":
            # h / l follow the display: towards the line start / end in the line's base direction
            d = (-1 if key == "h" else 1) * (self.context(r) if self.full(r) is not None else 1)
            for _ in range(cnt):
                nx = self.nextcol(r, o, d)
                if nx is None:
                    break
                o = nx
            return key, r, o
        if key in "wWbBeE":
            for _ in range(cnt):
                if key in "wW":
                    failed, r, o = self.wordbeg(key == "W", 1, r, o)
                else:
                    failed, r, o = self.wordend(key in "BE", 1 if key in "eE" else -1, r, o)
                if failed:
                    break
            return key, r, o
        if key in "{}":
            for _ in range(cnt):
                r2 = self.paragraph(1 if key == "}" else -1, r)
                o = 0
                if r2 == r:
                    break           # at the first / last line: further repetitions change nothing
                r = r2
            return key, r, 0
        if key == "0":
            return key, r, 0
        if key == "^":
            return key, r, self.indents(r)
        if key == "$":
            return key, r, self.eol(r)
        if key == "|":
            self.pcol = cnt - 1
            return key, r, self.col2off(r, cnt - 1)
        if key == " ":
            for _ in range(cnt):
                if self.full(r) is None or o + 1 >= self.slen(r):
                    break
                o += 1
            return key, r, o
        if key in ("\x7f", "\x08"):
            for _ in range(cnt):
                if o - 1 < 0 or self.full(r) is None:
                    break
                o -= 1
            return key, r, o
        if key == "`":
            if arg not in self.marks:
                return None
            return key, self.marks[arg][0], self.marks[arg][1]
        if key == "%":
            p = self.pair(r, o)
            return None if p is None else (key, p[0], p[1])
        raise ValueError("unmodelled motion " + repr(key))

    def wfix(self):
        n = len(self.ln)
        if self.row < 0 or self.row >= n:
            self.row = n - 1 if n else 0
        if self.top > self.row:
            self.top = max(0, self.row - self.xrows // 2) if self.top - self.xrows // 2 > self.row else self.row
        if self.top + self.xrows <= self.row:
            self.top = self.row - self.xrows // 2 if self.top + self.xrows + self.xrows // 2 <= self.row else self.row - self.xrows + 1
        self.off = self.noeol(self.row, self.off)

    def move(self, key, cnt=0, arg=None):
        """a motion typed as a command of its own; returns False when it failed (cursor unchanged)"""
        res = self.motion(key, cnt, arg)
        if res is None:
            self.wfix()
            return False
        mv, r, o = res
        if mv in "'`GHML{}" or (mv == "%" and o < 0):
            self.marks["'"] = (self.row, self.off)
            self.marks["`"] = (self.row, self.off)
        self.row = r
        if o < 0 and mv not in "jk":
            o = self.indents(self.row) if 0 <= self.row < len(self.ln) else 0
        if mv in "jk":
            o = self.col2off(self.row, self.col)
        if not (0 <= self.row < len(self.ln)):
            # CAL: 9G beyond the end: indentation and column are taken from the non-existent line (0), then the row is clamped
            o = 0
        self.off = self.noeol(self.row, o)
        if mv not in "|jk":
            self.col = self.off2col(self.row, self.off)
        if mv == "|":
            self.col = self.pcol
        self.wfix()
        return True

    def setmark(self, name):
        if len(name) == 1 and name.islower() and name.isascii():
            self.marks[name] = (self.row, self.off)


# ====================================================================== editing commands (C08)
class Regs:
    def __init__(self):
        self.r = {}

    def put(self, name, text, ln):
        """name: '' (unnamed) or one character"""
        def raw(c, s, l):
            low = c.lower() if (len(c) == 1 and c.isalpha() and c.isascii()) else c
            pre = self.r.get(low, ("", 0))[0] if (len(c) == 1 and c.isupper() and c.isascii()) else ""
            self.r[low] = (pre + s, l)
        if (ln or "\n" in text) and (name == "" or (len(name) == 1 and name.isalpha() and name.isascii())):
            for i in range(8, 0, -1):
                if str(i) in self.r:
                    self.r[str(i + 1)] = self.r[str(i)]
            self.r["1"] = (text, ln)
        raw(name, text, ln)

    def get(self, name):
        if name == '"':
            name = ""
        return self.r.get(name)


def typed_lines(text):
    """insert-mode line editor: returns the list of lines typed (the last one is the one ESC ended).
    ^H/DEL delete the last character typed on the current line, ^W the last word, ^U the whole line typed so far,
    ^V takes the next key literally."""
    lines = [""]
    i = 0
    while i < len(text):
        ch = text[i]
        cur = lines[-1]
        if ch in ("\x08", "\x7f"):
            lines[-1] = cur[:-1]
        elif ch == "\x15":
            lines[-1] = ""
        elif ch == "\x17":
            j = len(cur)
            while j > 0 and isspace(cur[j - 1]):
                j -= 1
            # led_lastword: r starts at the last character; trailing blanks skipped; then characters of the same kind
            if j > 0:
                k = kind(cur[j - 1])
                j -= 1
                while j > 0 and kind(cur[j - 1]) == k:
                    j -= 1
            lines[-1] = cur[:j]
        elif ch == "\x16" and i + 1 < len(text):
            lines[-1] = cur + text[i + 1]
            i += 1
        elif ch == "\n":
            lines.append("")
        else:
            lines[-1] = cur + ch
        i += 1
    return lines


class ViEd(Vi):
    """Vi plus operators, inserts, puts and registers (autoindent off)."""

    def __init__(self, lines, rows, tables):
        Vi.__init__(self, lines, rows, tables)
        self.regs = Regs()
        self.msg = None
        self.ai = False

    # ---- helpers
    def region_text(self, r1, o1, r2, o2):
        """o2 == -1: to the end of line r2 including its terminator"""
        def sub(r, a, b):
            f = self.full(r)
            if f is None:
                return ""
            a = min(max(a, 0), len(f))
            b = len(f) if b < 0 else min(b, len(f))
            return f[a:b] if a <= b else ""
        if r1 == r2:
            return sub(r1, o1, o2)
        return sub(r1, o1, -1) + "".join(self.ln[r] + "\n" for r in range(max(r1 + 1, 0), min(r2, len(self.ln)))) + sub(r2, 0, o2)

    def set_lines(self, r1, r2, text):
        """replace lines r1..r2 (inclusive) by the lines of text (None: delete)"""
        n = len(self.ln)
        a, b = min(r1, n), min(r2 + 1, n)
        if text is None:
            new = []
        else:
            new = text.split("\n")
            if new and new[-1] == "":
                new.pop()
        self.ln[a:b] = new

    def after(self):
        # vi(): vi_wfix() first (clamps the row and the offset), then the remembered column is recomputed (mod != 0)
        self.wfix()
        self.col = self.off2col(self.row, self.off) if 0 <= self.row < len(self.ln) else 0

    # ---- operator + motion
    def operator(self, op, reg, cnt1, cnt2, mkey, marg=None, typed=None):
        """op in d c y < > ~ u U (g~ gu gU) ; mkey the motion key or the doubled operator ('dd' -> mkey == op)"""
        r1 = r2 = self.row
        o1 = self.noeol(self.row, self.off)
        o2 = o1
        cnt = (cnt1 if cnt1 else 1) * (cnt2 if cnt2 else 1)
        n = len(self.ln)
        doubled = mkey == "same"
        if doubled:
            r2 = max(0, min(r2 + cnt - 1, n - 1))
            mv, o2 = op, -1
        else:
            save = (self.row, self.off)
            res = self.motion(mkey, cnt if (cnt1 or cnt2) else 0, marg)
            if res is None:
                return False
            mv, r2, o2 = res
        lnmode = o2 < 0
        if lnmode:
            o1, o2 = 0, self.eol(r2)
        if r1 > r2:
            r1, r2, o1, o2 = r2, r1, o2, o1
        if r1 == r2 and o1 > o2:
            o1, o2 = o2, o1
        o1 = self.noeol(r1, o1)
        if not lnmode and mv in "fFtTeE%":
            if o2 < self.eol(r2):
                o2 = self.noeol(r2, o2) + 1
        reg = reg or ""
        if op == "y":
            self.regs.put(reg, self.region_text(r1, 0 if lnmode else o1, r2, -1 if lnmode else o2), 1 if lnmode else 0)
            self.row = r1
            if not lnmode:
                self.off = o1
            self.after()        # (since fix 6cc1cbb a yank reports the moved cursor like every other command: the column follows)
            return True
        if op == "d":
            self.regs.put(reg, self.region_text(r1, 0 if lnmode else o1, r2, -1 if lnmode else o2), 1 if lnmode else 0)
            if not lnmode:
                f1, f2 = self.full(r1) or "", self.full(r2) or ""
                self.set_lines(r1, r2, f1[:o1] + f2[o2:])
            else:
                self.set_lines(r1, r2, None)
            self.row = r1
            self.off = self.indents(self.row) if lnmode else o1
            self.after()
            return True
        if op == "c":
            self.regs.put(reg, self.region_text(r1, 0 if lnmode else o1, r2, -1 if lnmode else o2), 1 if lnmode else 0)
            f1, f2 = self.full(r1), self.full(r2)
            if lnmode:
                pref = ""
                if self.ai and f1 is not None:
                    pref = f1[:len(f1) - len(f1.lstrip(" \t"))]
            else:
                pref = (f1 or "")[:o1]
            post = "\n" if (lnmode or f2 is None) else f2[o2:]
            self.row = r1
            self.do_input(pref, post, typed or "", r1, r2 + 1)
            return True
        if op in ("~", "u", "U"):
            txt = self.region_text(r1, 0 if lnmode else o1, r2, -1 if lnmode else o2)
            out = []
            for ch in txt:
                if ord(ch) <= 0x7f:
                    if op == "u":
                        ch = ch.lower()
                    elif op == "U":
                        ch = ch.upper()
                    else:
                        ch = ch.upper() if ch.islower() else ch.lower()
                out.append(ch)
            txt = "".join(out)
            if not lnmode:
                f1, f2 = self.full(r1) or "", self.full(r2) or ""
                self.set_lines(r1, r2, f1[:o1] + txt + f2[o2:])
            else:
                self.set_lines(r1, r2, txt)
            self.row = r2
            self.off = self.indents(r2) if lnmode else o2
            self.after()
            return True
        if op in ("<", ">"):
            for r in range(max(r1, 0), min(r2 + 1, len(self.ln))):
                l = self.ln[r]
                if op == ">":
                    if l != "":
                        l = "\t" + l
                else:
                    if l[:1] in (" ", "\t"):
                        l = l[1:]
                self.ln[r] = l
            self.row = r1
            self.off = self.indents(self.row)
            self.after()
            return True
        raise ValueError(op)

    def after_noop(self):
        # yank: mod == 0 -> the remembered column is not recomputed
        self.wfix()

    # ---- insert-mode text
    def do_input(self, pref, post, typed, beg, end):
        """replace lines [beg, end) by what the insert-mode line editor builds from pref + typed keys + post.
        Autoindent (self.ai): the leading blanks of pref (for o/O: of the current line) are carried to every new line that has
        other characters; ^T adds a tab to that indentation, ^D removes its last character (or, with no indentation and no
        prefix, the first blank typed on the line); blanks typed at the start of a line extend it."""
        k = 0
        while k < len(pref) and pref[k] in " \t":
            k += 1
        ai, pref = pref[:k], pref[k:]
        out = ""
        cur = ""                # text typed on the current line
        first = True
        i = 0
        keys = typed
        n_keys = len(keys)

        def commit(cur, ai, pref, last, post):
            sp = 0
            while sp < len(cur) and cur[sp] in " \t":
                sp += 1
            cond = sp < len(cur) or pref != "" or (last and post[:1] not in ("", "\n"))
            line = (ai if cond else "") + pref + cur
            return line, sp
        while i <= n_keys:
            ch = keys[i] if i < n_keys else None
            if ch is None or ch == "\n":
                last = ch is None
                line, sp = commit(cur, ai, pref if first else "", last, post)
                out += line
                if not last:
                    out += "\n"
                if first and pref == "" or not first:
                    ai = ai + cur[:sp]          # blanks typed at the start of the line extend the indentation
                if not self.ai:
                    ai = ""
                if last:
                    break
                first = False
                cur = ""
                if self.ai:
                    post = post.lstrip(" \t") if post not in ("",) else post
            elif ch in ("\x08", "\x7f"):
                cur = cur[:-1]
            elif ch == "\x15":
                cur = ""
            elif ch == "\x17":
                j = len(cur)
                while j > 0 and isspace(cur[j - 1]):
                    j -= 1
                if j > 0:
                    kk = kind(cur[j - 1])
                    j -= 1
                    while j > 0 and kind(cur[j - 1]) == kk:
                        j -= 1
                cur = cur[:j]
            elif ch == "\x14":          # ^T
                if len(ai) < 127:
                    ai += "\t"
            elif ch == "\x04":          # ^D
                if ai == "" and (pref if first else "") == "":
                    if cur[:1] in (" ", "\t"):
                        cur = cur[1:]
                if ai:
                    ai = ai[:-1]
            elif ch == "\x16" and i + 1 < n_keys:
                cur += keys[i + 1]
                i += 1
            else:
                cur += ch
            i += 1
        last_before_post = out.split("\n")[-1]
        out += post
        n_lines = out.count("\n")
        n = len(self.ln)
        a, b = min(beg, n), min(end, n)
        new = out.split("\n")
        if new and new[-1] == "":
            new.pop()
        self.ln[a:b] = new
        self.row = beg + n_lines - 1
        self.off = max(0, len(last_before_post) - 1)
        self.after()

    def insert(self, cmd, typed):
        n = len(self.ln)
        f = self.full(self.row)
        if cmd == "I":
            self.off = self.indents(self.row)
        if cmd == "A":
            self.off = self.eol(self.row)
        self.off = self.noeol(self.row, self.off)
        if cmd in "iI":
            off = self.off
        elif cmd in "aA":
            off = self.off + 1
        else:
            off = 0
        if f is not None and f[0] == "\n":
            off = 0
        if cmd in "oO":
            if n == 0:
                self.ln.insert(0, "")          # CAL: o/O on an empty buffer first create an empty line
            beg = self.row + 1 if cmd == "o" else self.row
            ind = ""
            if self.ai and f is not None:
                ind = f[:len(f) - len(f.lstrip(" \t"))]
            self.do_input(ind, "\n", typed, beg, beg)
        else:
            pref = f[:off] if f is not None else ""
            post = f[off:] if f is not None else "\n"
            self.do_input(pref, post, typed, self.row, self.row + 1)

    def put(self, cmd, reg, cnt):
        cnt = max(1, cnt)
        buf = self.regs.get(reg or "")
        if buf is None or buf[0] == "":
            self.after_noop()
            return False
        text, lnmode = buf
        if lnmode:
            if not self.ln:
                self.ln.append("")          # CAL: a line-wise put into an empty buffer first creates an empty line
            if cmd == "p":
                self.row += 1
            new = (text * cnt).split("\n")
            if new and new[-1] == "":
                new.pop()
            self.ln[self.row:self.row] = new
            self.off = self.indents(self.row)
        else:
            f = self.full(self.row) if 0 <= self.row < len(self.ln) else "\n"
            off = self.noeol_str(f, self.off) + (1 if (f[0] != "\n" and cmd == "p") else 0)
            newtext = f[:off] + text * cnt + f[off:]
            new = newtext.split("\n")
            if new and new[-1] == "":
                new.pop()
            if 0 <= self.row < len(self.ln):
                self.ln[self.row:self.row + 1] = new
            else:
                self.ln[len(self.ln):] = new
            self.off = off + len(text) * cnt - 1
        self.after()
        return True

    @staticmethod
    def noeol_str(f, o):
        n = len(f)
        if o >= n:
            o = max(0, n - 1)
        return o - 1 if (o > 0 and f[o] == "\n") else o

    def join(self, cnt):
        cnt = 2 if cnt <= 1 else cnt
        beg, end = self.row, self.row + cnt
        if not (0 <= beg < len(self.ln)) or not (0 <= end - 1 < len(self.ln)):
            self.after_noop()
            return False
        acc = ""
        off = 0
        for i in range(beg, end):
            l = self.ln[i]
            if i > beg:
                l = l.lstrip(" \t")
            if i > beg and acc != "":
                if acc.endswith(" ") or l.startswith(")"):
                    sp = 0
                else:
                    sp = 2 if acc.endswith(".") else 1
            else:
                sp = 0
            off = len(acc)
            acc += " " * sp + l
        self.ln[beg:end] = [acc]
        self.off = off
        self.after()
        return True

    def replace(self, cnt, ch):
        cnt = max(1, cnt)
        f = self.full(self.row)
        if f is None:
            self.after_noop()
            return False
        off = self.noeol(self.row, self.off)
        if off + cnt > len(f) - 1:      # fewer than cnt characters before the terminator
            self.after_noop()
            return False
        new = f[:off] + ch * cnt + f[off + cnt:]
        nl = new.split("\n")
        if nl and nl[-1] == "":
            nl.pop()
        self.ln[self.row:self.row + 1] = nl
        if ch == "\n":
            self.row += cnt
            self.off = 0
        else:
            self.off = off + cnt - 1
        self.after()
        return True
