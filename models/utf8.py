"""UTF-8 from first principles (no use of uc.c, no use of Python's codec for the checks)."""


def encode_cp(c):
    if c < 0x80:
        return bytes([c])
    if c < 0x800:
        return bytes([0xc0 | (c >> 6), 0x80 | (c & 0x3f)])
    if c < 0x10000:
        return bytes([0xe0 | (c >> 12), 0x80 | ((c >> 6) & 0x3f), 0x80 | (c & 0x3f)])
    return bytes([0xf0 | (c >> 18), 0x80 | ((c >> 12) & 0x3f), 0x80 | ((c >> 6) & 0x3f), 0x80 | (c & 0x3f)])


def segment(b):
    """list of (offset, length, codepoint) or None if b is not valid UTF-8 (strict: no overlongs,
    no surrogates, max U+10FFFF)"""
    out = []
    i = 0
    n = len(b)
    while i < n:
        c = b[i]
        if c < 0x80:
            l, cp, lo = 1, c, 0
        elif 0xc2 <= c <= 0xdf:
            l, cp, lo = 2, c & 0x1f, 0x80
        elif 0xe0 <= c <= 0xef:
            l, cp, lo = 3, c & 0x0f, 0x800
        elif 0xf0 <= c <= 0xf4:
            l, cp, lo = 4, c & 0x07, 0x10000
        else:
            return None
        if i + l > n:
            return None
        for k in range(1, l):
            if b[i + k] & 0xc0 != 0x80:
                return None
            cp = (cp << 6) | (b[i + k] & 0x3f)
        if cp < lo or cp > 0x10ffff or 0xd800 <= cp <= 0xdfff:
            return None
        out.append((i, l, cp))
        i += l
    return out


def valid(b):
    return segment(b) is not None
