"""Base direction and run reversal as documented in README / conf.h (written as scanners, no regex),
and Arabic joining data derived from the Unicode character database (not from uc.c)."""
import unicodedata

L_CHARS = set("abcdefghijklmnopqrstuvwxyzABCDEFGHIJKLMNOPQRSTUVWXYZ0123456789_")


def context(line, td, tabs):
    if td > 1:
        return 1
    if td < -1:
        return -1
    if td == 0 and (not line or ord(line[0]) < 0x80):
        return 1
    if line and line[0] in tabs.cr2l:
        return -1
    if line and line[0] in L_CHARS:
        return 1
    return -1 if td < 0 else 1


def reorder(line, ctx, tabs):
    """visual order as a permutation of range(len(line)) for lines without mark characters:
    LTR line: every maximal span R (R|N)* R is reversed; RTL line: every span L [^R \\ ` $ ']* L."""
    n = len(line)
    ord_ = list(range(n))
    i = 0
    if ctx > 0:
        R, N = tabs.cr2l, tabs.cneut
        while i < n:
            if line[i] in R:
                j = i
                last = i
                while j < n and (line[j] in R or line[j] in N):
                    if line[j] in R:
                        last = j
                    j += 1
                if last > i:
                    ord_[i:last + 1] = ord_[i:last + 1][::-1]
                    i = last + 1
                    continue
            i += 1
    else:
        stop = tabs.cr2l | set("\\`$'")
        while i < n:
            if line[i] in L_CHARS:
                j = i + 1
                last = i
                while j < n and line[j] not in stop:
                    if line[j] in L_CHARS:
                        last = j
                    j += 1
                if last > i:
                    ord_[i:last + 1] = ord_[i:last + 1][::-1]
                    i = last + 1
                    continue
            i += 1
    return ord_


# ---------------------------------------------------------------- configured direction marks (conf.h dirmarks[])
import os as _os
import re as _re


def _c_unescape(lit):
    out = []
    i = 0
    while i < len(lit):
        if lit[i] == "\\" and i + 1 < len(lit):
            out.append({"t": "\t", "n": "\n", "\\": "\\", '"': '"', "'": "'"}.get(lit[i + 1], lit[i + 1]))
            i += 2
        else:
            out.append(lit[i])
            i += 1
    return "".join(out)


class Marks:
    """dirmarks[] of the tree under test: (context, direction, nested group, pattern).  The patterns are configuration data written
    in ERE; they are run here by Python's re (same leftmost / first-alternative / greedy discipline), not by the engine under test."""

    def __init__(self, srcdir):
        conf = open(_os.path.join(srcdir, "conf.h"), encoding="utf-8").read()
        macros = {}
        for m in _re.finditer(r'#define\s+(\w+)\s+"((?:[^"\\]|\\.)*)"', conf):
            macros[m.group(1)] = _c_unescape(m.group(2))
        blk = _re.search(r"dirmarks\[\]\s*=\s*\{(.*?)\n\};", conf, _re.S).group(1)
        self.marks = []
        for m in _re.finditer(r"\{\s*([+-]?\d+)\s*,\s*([+-]?\d+)\s*,\s*(\d+)\s*,\s*(.*?)\}\s*,\s*\n", blk + "\n", _re.S):
            pat = ""
            for tok in _re.finditer(r'"((?:[^"\\]|\\.)*)"|(\w+)', m.group(4)):
                pat += _c_unescape(tok.group(1)) if tok.group(1) is not None else macros[tok.group(2)]
            self.marks.append((int(m.group(1)), int(m.group(2)), int(m.group(3)), _re.compile(pat), pat))


def reorder_marks(body, ctx, marks):
    """visual index of every character of body (no terminator) under the documented procedure: scan left to right for the leftmost
    mark of the current direction context; the matched span is a run of the mark's direction (reversed as a whole when the surrounding
    direction is right-to-left, its inner group reversed when the mark's own direction is right-to-left); a mark with a nested group
    is then scanned inside in its own direction; continue after the span."""
    n = len(body)
    ord_ = list(range(n))

    def rev(b, e):
        ord_[b:e] = ord_[b:e][::-1]

    def fix(d, beg, end, depth=0):
        while beg < end:
            sub = body[beg:end]
            best = None
            for pos in range(len(sub)):
                for mctx, mdir, grp, rx, _ in marks.marks:
                    if (d < 0 and mctx > 0) or (d > 0 and mctx < 0):
                        continue
                    m = rx.match(sub, pos)
                    if m and m.end() > m.start():
                        best = (m, mdir, grp)
                        break
                if best:
                    break
            if not best:
                return
            m, mdir, grp = best
            r_beg, r_end = beg + m.start(), beg + m.end()
            if grp and m.start(grp) >= 0:
                c_beg, c_end = beg + m.start(grp), beg + m.end(grp)
            else:
                c_beg, c_end = r_beg, r_end
            if d < 0:
                rev(r_beg, r_end)
            if mdir < 0:
                rev(c_beg, c_end)
            if c_beg == r_beg:
                c_beg += 1
            if grp > 0 and depth < 50:
                fix(mdir, c_beg, c_end, depth + 1)
            beg = r_end
    fix(ctx, 0, n)
    return ord_


# ---------------------------------------------------------------- Arabic presentation forms from the UCD
FORMS = {}      # base code point -> {"isolated":cp, "initial":cp, "medial":cp, "final":cp}
for cp in list(range(0xfb50, 0xfe00)) + list(range(0xfe70, 0xff00)):
    d = unicodedata.decomposition(chr(cp)).split()
    if len(d) == 2 and d[0] in ("<isolated>", "<initial>", "<medial>", "<final>"):
        FORMS.setdefault(int(d[1], 16), {})[d[0][1:-1]] = cp

LETTERS = list(range(0x0621, 0x063b)) + list(range(0x0641, 0x064b)) + [0x067e, 0x0686, 0x0698, 0x06a9, 0x06af, 0x06cc]
TATWEEL, ZWNJ, ZWJ = 0x0640, 0x200c, 0x200d


def is_diacritic(c):
    return 0x064b <= c <= 0x0655 or 0xfc5e <= c <= 0xfc63 or c == 0x0670


def joins_forward(c):
    """can c connect to the letter after it (dual-joining letters, tatweel, ZWJ)"""
    if c in (TATWEEL, ZWJ):
        return True
    return c in FORMS and "initial" in FORMS[c]


def joins_backward(c):
    """can c connect to the letter before it"""
    if c in (TATWEEL, ZWJ):
        return True
    return c in FORMS and "final" in FORMS[c]


# U+0649 ALEF MAKSURA: the UCD lists initial/medial forms (FBE8/FBE9, "Uighur Kazakh Kirghiz"), i.e. dual joining, while in
# Arabic-language typography it never joins forward.  Both readings are accepted (the property does not decide).
FORWARD_AMBIGUOUS = {0x0649}


def expected_shape(cps, i):
    """set of acceptable results of shaping cps[i] in its line (base letter / isolated allowed when nothing joins)"""
    amb = [j for j in (i - 1, i) if 0 <= j < len(cps) and cps[j] in FORWARD_AMBIGUOUS]
    # skip diacritics when looking for an ambiguous previous letter
    j = i - 1
    while j >= 0 and is_diacritic(cps[j]):
        j -= 1
    if j >= 0 and cps[j] in FORWARD_AMBIGUOUS and j not in amb:
        amb.append(j)
    if amb:
        res = set()
        for variant in (True, False):
            res |= _expected(cps, i, variant)
        return res
    return _expected(cps, i, True)


def _expected(cps, i, amb_joins):
    c = cps[i]
    prev = nxt = 0
    j = i - 1
    while j >= 0:
        if not is_diacritic(cps[j]):
            prev = cps[j]
            break
        j -= 1
    j = i + 1
    while j < len(cps):
        if not is_diacritic(cps[j]):
            nxt = cps[j]
            break
        j += 1
    def jf(x):
        if x in FORWARD_AMBIGUOUS:
            return amb_joins
        return joins_forward(x)
    jp = jf(prev) and joins_backward(c)
    jn = jf(c) and joins_backward(nxt)
    f = FORMS.get(c, {})
    if jp and jn:
        return {f.get("medial", c)}
    if jp:
        return {f.get("final", c)}
    if jn:
        return {f.get("initial", c)}
    return {c, f.get("isolated", c)}
