"""Hypothesis strategies for regex ASTs (JSON-able) drawn from the grammar regex.c accepts,
and a Python re-implementation of its *parser* (used only to confirm that the printed pattern is
read back as the same tree, and to judge which byte strings are well formed)."""
from hypothesis import strategies as st

from . import rx

LIT_CHARS = ["a", "b", "c", "A", "B", "_", " ", "-", "1", "é", "日", ".", "*", "(", ")", "x", "é"]
LINE_CHARS = ["a", "b", "c", "A", "B", "C", "_", " ", "-", "1", "2", "é", "É", "日", "本", ".", "*", "(", ")", "x", "\t", "ل",
              # code points that differ from ASCII letters / digits only in high bits (a decoder that drops a bit makes them collide)
              "б", "а", "с", "š", "ł", "\u0461", "\u0841", "\U00010061"]
CLASSNAMES = ["alnum", "alpha", "blank", "digit", "lower", "print", "punct", "space", "upper", "word", "xdigit"]


def from_json(j):
    if j is None:
        return None
    k = j[0]
    if k == "lit":
        return rx.lit(j[1])
    if k == "any":
        return rx.anyc()
    if k == "brk":
        return rx.brk(j[1], [tuple(it) for it in j[2]])
    if k in ("bol", "eol", "wb", "we"):
        return rx.N(k)
    if k == "grp":
        return rx.grp(from_json(j[1]))
    if k in ("cat", "alt"):
        return rx.N(k, [from_json(x) for x in j[1]])
    if k == "rep":
        return rx.rep(from_json(j[1]), j[2], j[3])
    raise ValueError(k)


brk_item = st.one_of(
    st.sampled_from(["a", "b", "c", "A", "_", "1", " ", "é", "日", ".", "*", "(", "[", "[", "*", "=", "\\", "\\", "]", "]", ")"]).map(lambda c: ["c", c]),
    st.sampled_from([("a", "c"), ("0", "9"), ("A", "B"), ("a", "z"), ("é", "日"), ("b", "b"), ("A", "z"), ("Z", "a"), ("X", "c")]).map(lambda t: ["r", t[0], t[1]]),
    st.sampled_from(CLASSNAMES).map(lambda c: ["k", c]),
)
# (one bracket in six has "]" as its first and/or "[" as its last member: the shapes in which the bracket scanners must agree on where it ends)
brk_edge = st.tuples(st.booleans(), st.sampled_from([[["c", "]"]], [["c", "]"], ["c", "["]], [["c", "]"], ["c", "a"], ["c", "["]], [["c", "["]], [["c", "]"], ["c", "("]],
                                                      [["c", "]"], ["c", ")"], ["c", "["]]])).map(lambda t: ["brk", t[0], t[1]])
brk_node = st.one_of(*([st.tuples(st.booleans(), st.lists(brk_item, min_size=1, max_size=3)).map(lambda t: ["brk", t[0], t[1]])] * 5 + [brk_edge]))
single = st.one_of(st.sampled_from(LIT_CHARS).map(lambda c: ["lit", c]), st.just(["any"]), brk_node)
litrun = st.lists(st.sampled_from(LIT_CHARS), min_size=1, max_size=4).map(lambda l: ["lit", "".join(l)])
anchor = st.sampled_from([["bol"], ["eol"], ["wb"], ["we"]])
bounds = st.sampled_from([(0, -1), (0, -1), (1, -1), (0, 1), (0, 1), (2, 2), (1, 3), (0, 2), (2, -1), (3, 3), (0, 0), (1, 1), (2, 4)])


def _unbounded(j):
    """does the subtree contain an unbounded or counted quantifier (exponential-blowup guard)"""
    if j is None:
        return False
    if j[0] == "rep":
        return True
    if j[0] == "grp":
        return _unbounded(j[1])
    if j[0] in ("cat", "alt"):
        return any(_unbounded(x) for x in j[1])
    return False


def empty_ways(j):
    """number of distinct ways the sub-pattern can match the empty string (upper estimate; anchors count as 1).
    A body with >=2 empty parses under an unbounded quantifier makes the engine explore 2^NDEPT paths."""
    if j is None:
        return 1
    k = j[0]
    if k in ("lit", "any", "brk", "brkraw"):
        return 0 if (k != "lit" or j[1]) else 1
    if k in ("bol", "eol", "wb", "we"):
        return 1
    if k == "grp":
        return empty_ways(j[1])
    if k == "cat":
        w = 1
        for x in j[1]:
            w *= empty_ways(x)
        return min(w, 99)
    if k == "alt":
        return min(sum(empty_ways(x) for x in j[1]), 99)
    if k == "rep":
        w = empty_ways(j[1])
        lo, hi = j[2], j[3]
        if lo == 0 and hi == 0:
            return 1
        if lo == 0:
            return min(1 + w * (1 if hi in (1,) else max(1, w)), 99) if w else 1
        return min(w ** min(lo, 3), 99) if w else 0
    return 0


def explosive_ast(j):
    """True if some unbounded (or large-bounded) loop has a body with >= 2 empty parses"""
    if j is None:
        return False
    k = j[0]
    if k == "rep":
        if (j[3] == -1 or j[3] > 8) and empty_ways(j[1]) >= 2:
            return True
        return explosive_ast(j[1])
    if k == "grp":
        return explosive_ast(j[1])
    if k in ("cat", "alt"):
        return any(explosive_ast(x) for x in j[1])
    return False


def explosive(pattern):
    """string-level judgement used by generators that build patterns from string pools"""
    pj, used = parse("((" + pattern + "))")
    if pj is None:
        return False            # rejected by the engine: nothing is matched
    return explosive_ast(pj)


@st.composite
def node(draw, depth):
    """a concatenation element"""
    k = draw(st.integers(0, 11))
    if k <= 2:
        return draw(litrun)
    if k == 3:
        return draw(single)
    if k == 4:
        return draw(anchor)
    if k <= 7:
        # quantified single atom
        lo, hi = draw(bounds)
        return ["rep", draw(single), lo, hi]
    if depth <= 0:
        return draw(single)
    inner = draw(st.one_of(st.none(), alt_or_cat(depth - 1), alt_or_cat(depth - 1)))
    g = ["grp", inner]
    if k <= 9:
        return g
    if _unbounded(inner):
        # a quantified group must not contain another quantifier (keeps backtracking polynomial)
        lo, hi = draw(st.sampled_from([(0, 1), (1, 1)]))
    else:
        lo, hi = draw(bounds)
        if hi == -1 and empty_ways(inner) >= 2:
            hi = draw(st.sampled_from([1, 2]))
            lo = min(lo, hi)
    return ["rep", g, lo, hi]


@st.composite
def cat_node(draw, depth):
    xs = draw(st.lists(node(depth), min_size=1, max_size=4))
    # merge nothing: adjacent literals simply concatenate when printed; semantics identical
    if len(xs) == 1:
        return xs[0]
    return ["cat", xs]


@st.composite
def alt_or_cat(draw, depth):
    n = draw(st.sampled_from([1, 1, 1, 2, 2, 3]))
    xs = [draw(cat_node(depth)) for _ in range(n)]
    if n == 1:
        return xs[0]
    # an empty alternative, first, last or in the middle: (|a) (a|) (a||b)
    if draw(st.integers(0, 7)) == 0:
        xs.insert(draw(st.integers(0, len(xs))), ["cat", []])
    return ["alt", xs]


def count_reps(j):
    if j is None:
        return 0
    if j[0] == "rep":
        return 1 + count_reps(j[1])
    if j[0] == "grp":
        return count_reps(j[1])
    if j[0] in ("cat", "alt"):
        return sum(count_reps(x) for x in j[1])
    return 0


pattern_ast = alt_or_cat(2).filter(lambda j: count_reps(j) <= 4)


def chars_of(j, out):
    if j is None:
        return
    if j[0] == "lit":
        out.extend(j[1])
    elif j[0] == "brk":
        for it in j[2]:
            if it[0] == "c":
                out.append(it[1])
            elif it[0] == "r":
                out.extend([it[1], it[2]])
    elif j[0] == "grp":
        chars_of(j[1], out)
    elif j[0] in ("cat", "alt"):
        for x in j[1]:
            chars_of(x, out)
    elif j[0] == "rep":
        chars_of(j[1], out)


@st.composite
def line_for(draw, asts, maxlen=10):
    pool = []
    for a in asts:
        chars_of(a, pool)
    pool = [c for c in pool if c != "\n"] or ["a"]
    ch = st.one_of(st.sampled_from(pool), st.sampled_from(pool), st.sampled_from(LINE_CHARS))
    return "".join(draw(st.lists(ch, max_size=maxlen)))


# ------------------------------------------------------------------ parser mirroring rnode_* (for print/parse agreement)
class P:
    def __init__(self, s):
        self.s = s
        self.i = 0

    def peek(self, k=0):
        return self.s[self.i + k] if self.i + k < len(self.s) else ""


def parse(s):
    """returns the AST the engine builds for pattern s (or None if rnode_parse returns NULL),
    following regex.c: used to cross-check the printer, not as a matching oracle."""
    p = P(s)
    n = _parse(p)
    return n, p.i


def _parse(p):
    c1 = _seq(p)
    if p.peek() != "|":
        return c1
    p.i += 1
    c2 = _parse(p)
    if c2 is None:
        c2 = ["cat", []]        # an empty last alternative is an alternative: (a|)b matches b
    if c1 is None:
        c1 = ["cat", []]
    if c2[0] == "alt":
        return ["alt", [c1] + c2[1]]
    return ["alt", [c1, c2]]


def _seq(p):
    c1 = _atom(p)
    if c1 is None:
        return None
    c2 = _seq(p)
    if c2 is None:
        return c1
    if c2[0] == "cat":
        return ["cat", [c1] + c2[1]]
    return ["cat", [c1, c2]]


def _brk_len(s, i):
    n = 1
    def at(k): return s[i + k] if i + k < len(s) else ""
    if at(n) == "^":
        n += 1
    if at(n) == "]":
        n += 1
    while at(n) and at(n) != "]":
        if at(n) == "[" and at(n + 1) in (":", "="):
            while at(n) and at(n) != "]":
                n += 1
        if at(n):
            n += 1
    return n + 1 if at(n) == "]" else n


def _atom(p):
    c = p.peek()
    if c == "" or c in "|)":
        return None
    if c == "(":
        p.i += 1
        inner = None
        if p.peek() != ")":
            inner = _parse(p)
            if inner is None:
                return None
        if p.peek() != ")":
            return None
        p.i += 1
        node_ = ["grp", inner]
    else:
        node_ = _ratom(p)
    lo = hi = 1
    q = False
    if p.peek() in ("*", "?") and p.peek() != "":
        lo, hi = 0, (-1 if p.peek() == "*" else 1)
        p.i += 1
        q = True
    if p.peek() == "+":
        lo, hi = 1, -1
        p.i += 1
        q = True
    if p.peek() == "{":
        lo = hi = 0
        p.i += 1
        while p.peek().isdigit() and p.peek().isascii():
            lo = lo * 10 + int(p.peek())
            p.i += 1
        if p.peek() == ",":
            p.i += 1
            if p.peek() == "}":
                hi = -1
            while p.peek().isdigit() and p.peek().isascii():
                hi = hi * 10 + int(p.peek())
                p.i += 1
        else:
            hi = lo
        p.i += 1
        q = True
        if lo > 128 or hi > 128 or (hi >= 0 and hi < lo):
            return None
    if q and not (lo == 1 and hi == 1):
        return ["rep", node_, lo, hi]
    return node_


def _ratom(p):
    c = p.peek()
    if c == ".":
        p.i += 1
        return ["any"]
    if c == "^":
        p.i += 1
        return ["bol"]
    if c == "$":
        p.i += 1
        return ["eol"]
    if c == "[":
        n = _brk_len(p.s, p.i)
        txt = p.s[p.i:p.i + n]
        p.i += n
        return ["brkraw", txt]
    if c == "\\":
        if p.peek(1) in ("<", ">") and p.peek(1) != "":
            p.i += 2
            return ["wb"] if p.s[p.i - 1] == "<" else ["we"]
        p.i += 1
    start = p.i
    j = p.i
    while j < len(p.s) and (j == start or p.s[j] not in rx.META):
        if j != start and j + 1 < len(p.s) and p.s[j + 1] in "*?+{":
            break
        j += 1
    if j == start:      # pattern ended right after a backslash
        j = start
    txt = p.s[start:j]
    p.i = j
    return ["lit", txt]


def normalize(j):
    """canonical form for comparing generator ASTs with parser ASTs: merge adjacent literals, flatten"""
    if j is None:
        return None
    k = j[0]
    if k == "brk":
        return ["brkraw", rx._brk_str(rx.brk(j[1], [tuple(x) for x in j[2]]))]
    if k == "grp":
        return ["grp", normalize(j[1])]
    if k == "rep":
        if j[2] == 1 and j[3] == 1:
            return normalize(j[1])
        return ["rep", normalize(j[1]), j[2], j[3]]
    if k == "alt":
        xs = []
        for x in j[1]:
            nx = normalize(x)
            if nx and nx[0] == "alt":
                xs.extend(nx[1])
            else:
                xs.append(nx)
        return ["alt", xs]
    if k == "cat":
        xs = []
        for x in j[1]:
            nx = normalize(x)
            if nx[0] == "cat":
                ys = nx[1]
            else:
                ys = [nx]
            for y in ys:
                if xs and xs[-1][0] == "lit" and y[0] == "lit":
                    xs[-1] = ["lit", xs[-1][1] + y[1]]
                else:
                    xs.append(y)
        if len(xs) == 1:
            return xs[0]
        return ["cat", xs]
    return list(j)


def _split_lits(j):
    """the engine splits 'abc*' into 'ab','c*' and 'a\\.b' into 'a','.b'; merging adjacent literals on both sides
    makes the comparison independent of where it splits"""
    return normalize(j)
