"""VT100 subset emulator: exactly the sequences term.c / led.c emit (CSI H, K, L, M, r, m, C, D; CR; LF)."""
import re


class Term:
    def __init__(self, rows, cols, widthfn):
        self.rows, self.cols = rows, cols
        self.cells = [[" "] * cols for _ in range(rows)]
        self.r = self.c = 0
        self.top, self.bot = 0, rows - 1
        self.wid = widthfn
        self.unknown = []

    def _scroll_up(self, top, bot, n=1):
        for _ in range(n):
            del self.cells[top]
            self.cells.insert(bot, [" "] * self.cols)

    def _scroll_down(self, top, bot, n=1):
        for _ in range(n):
            del self.cells[bot]
            self.cells.insert(top, [" "] * self.cols)

    def feed(self, data):
        s = data.decode("utf-8", "replace")
        i = 0
        n = len(s)
        while i < n:
            ch = s[i]
            if ch == "\x1b":
                m = re.match(r"\x1b\[([0-9;]*)([A-Za-z])", s[i:])
                if not m:
                    self.unknown.append(s[i:i + 6])
                    i += 1
                    continue
                args, fin = m.group(1), m.group(2)
                nums = [int(x) if x else 0 for x in args.split(";")] if args else []
                if fin == "H":
                    r = (nums[0] if len(nums) > 0 and nums[0] else 1) - 1
                    c = (nums[1] if len(nums) > 1 and nums[1] else 1) - 1
                    self.r, self.c = min(max(r, 0), self.rows - 1), min(max(c, 0), self.cols - 1)
                elif fin == "K":
                    for c in range(self.c, self.cols):
                        self.cells[self.r][c] = " "
                elif fin == "L":
                    if self.top <= self.r <= self.bot:
                        self._scroll_down(self.r, self.bot, max(1, nums[0] if nums else 1))
                elif fin == "M":
                    if self.top <= self.r <= self.bot:
                        self._scroll_up(self.r, self.bot, max(1, nums[0] if nums else 1))
                elif fin == "r":
                    if len(nums) >= 2 and nums[0] and nums[1]:
                        self.top, self.bot = nums[0] - 1, min(nums[1] - 1, self.rows - 1)
                    else:
                        self.top, self.bot = 0, self.rows - 1
                    self.r = self.c = 0
                elif fin == "m":
                    pass
                elif fin == "C":
                    self.c = min(self.cols - 1, self.c + max(1, nums[0] if nums else 1))
                elif fin == "D":
                    self.c = max(0, self.c - max(1, nums[0] if nums else 1))
                else:
                    self.unknown.append(m.group(0))
                i += len(m.group(0))
                continue
            if ch == "\r":
                self.c = 0
            elif ch == "\n":
                if self.r == self.bot:
                    self._scroll_up(self.top, self.bot)
                elif self.r < self.rows - 1:
                    self.r += 1
            elif ch == "\b":
                self.c = max(0, self.c - 1)
            else:
                w = self.wid(ord(ch))
                if w == 0:
                    # combining mark: attach to the previous cell
                    pc = max(0, self.c - 1)
                    self.cells[self.r][pc] = self.cells[self.r][pc] + ch
                else:
                    if self.c + w <= self.cols:
                        self.cells[self.r][self.c] = ch
                        if w == 2:
                            self.cells[self.r][self.c + 1] = ""
                        self.c = min(self.cols - 1, self.c + w) if self.c + w >= self.cols else self.c + w
            i += 1

    def row_text(self, r):
        return "".join(self.cells[r])
