"""Cell widths and character classes from the tables of uc.c / conf.h, looked up by LINEAR scan
(the implementation bisects).  The tables are configuration data parsed from the source tree under test."""
import os
import re


def _table(src, name):
    m = re.search(r"static int %s\[\]\[2\] = \{(.*?)\};" % name, src, re.S)
    return [(int(a, 16), int(b, 16)) for a, b in re.findall(r"\{\s*(0x[0-9a-fA-F]+)\s*,\s*(0x[0-9a-fA-F]+)\s*\}", m.group(1))]


class Tables:
    def __init__(self, srcdir):
        uc = open(os.path.join(srcdir, "uc.c"), encoding="utf-8").read()
        conf = open(os.path.join(srcdir, "conf.h"), encoding="utf-8").read()
        self.dw = _table(uc, "dwchars")
        self.zw = _table(uc, "zwchars")
        self.bell = _table(uc, "bchars")
        m = re.search(r"placeholders\[\] = \{(.*?)\n\};", conf, re.S)
        self.placeholders = {}
        for s, d, w in re.findall(r'\{"([^"]*)",\s*"([^"]*)",\s*(\d+)\}', m.group(1)):
            self.placeholders[ord(s)] = int(w)
        self.cr2l = set(re.search(r'#define CR2L\s+"([^"]*)"', conf).group(1))
        self.cneut = set(re.search(r'#define CNEUT\s+"((?:[^"\\]|\\.)*)"', conf).group(1).replace('\\"', '"').replace("\\\\", "\\"))

    @staticmethod
    def _in(c, tab):
        for a, b in tab:          # linear scan on purpose
            if a <= c <= b:
                return True
        return False

    def sorted_ok(self):
        bad = []
        for name, t in (("dwchars", self.dw), ("zwchars", self.zw), ("bchars", self.bell)):
            for i in range(len(t)):
                if t[i][0] > t[i][1] or (i and t[i][0] <= t[i - 1][1]):
                    bad.append((name, i))
        return bad

    def wid(self, c):
        if self._in(c, self.zw):
            return 0
        return 2 if self._in(c, self.dw) else 1

    def isbell(self, c):
        if c in (0x20, 0x09, 0x0a) or 0x20 <= c < 0x7f:
            return False
        return self._in(c, self.zw) or self._in(c, self.bell)

    @staticmethod
    def iscomb(c):
        if c in (0x20, 0x09, 0x0a) or (c <= 0x7f and 0x20 <= c < 0x7f):
            return False
        return 0x064b <= c <= 0x0655 or 0xfc5e <= c <= 0xfc63 or c == 0x0670

    def cwid(self, c, col):
        """cells taken by code point c when it starts at column col"""
        if c == 9:
            return 8 - (col % 8)
        if c in self.placeholders:
            return self.placeholders[c]
        if self.isbell(c):
            return 1
        return self.wid(c)
