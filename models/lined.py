"""Reference line editor for neatvi's ex commands (structured commands, no parsing).

Written from the property statements; where they are silent the behaviour is *calibrated* to the
unchanged tree (each calibration is marked CAL).  Lines carry identities so that "every other
line keeps its bytes and order" and "a mark keeps designating the same line" can be checked
independently of the calibrations.

Address term:   {"b": base, "o": [offset strings]}   base: ["n", k] | ["."] | ["$"] | ["m", ch] | ["/", ast] | ["?", ast] | [""]
Address list:   [[sep, term], ...]  sep in "", ",", ";"   (first sep is "")
Command:        {"a": addrlist, "c": name, ...}
"""
from . import rx, rxgen


MAXLINE, MAXLINES = 20000, 20000


class TooBig(Exception):
    """a generated script made the text grow geometrically (e.g. :g/./%s/.*/&&/): resource exhaustion is outside the properties;
    the harness sets such a case aside without running the editor on it"""


class Fail(Exception):
    pass


NOADDR = -(1 << 28)      # an address that does not resolve: no offset brings it back into range


def addr_text(al, delim_escape):
    out = []
    for sep, t in al:
        out.append(sep)
        b = t["b"]
        if b[0] == "n":
            out.append(str(b[1]))
        elif b[0] in (".", "$", "%"):
            out.append(b[0])
        elif b[0] == "m":
            out.append("'" + b[1])
        elif b[0] in ("/", "?"):
            out.append(b[0] + delim_escape(rx.to_pattern(rxgen.from_json(b[1])), b[0]) + b[0])
        out.extend(t["o"])
    return "".join(out)


def _atoi(s):
    # atoi("+3") = 3, atoi("-2") = -2, atoi("+") = atoi("-") = 0   (CAL: a bare sign adds nothing)
    sign = -1 if s[0] == "-" else 1
    digits = s[1:]
    return sign * int(digits) if digits else 0


class Ed:
    def __init__(self, lines, icase=False):
        self.txt = {}
        self.nextid = 0
        self.ln = [self._new(t) for t in lines]
        self.xrow = 0
        self.marks = {}          # name -> index (position semantics of lbuf_replace, CAL) or absent
        self.regs = {}           # name -> (text, lnmode)
        self.out = []            # stdout pieces
        self.icase = icase
        self.undo = []           # stack of (ids, txt snapshot) per command that changed something
        self.redo = []
        self.blocks = []         # supply of text blocks (lists of lines) consumed by a/i/c
        self.blocks_used = 0
        self.wa = False
        self.modified = False
        self.gdep = 0
        self.touched = False

    def _new(self, t):
        if len(t) > MAXLINE or len(getattr(self, "ln", ())) > MAXLINES:
            raise TooBig()
        self.nextid += 1
        self.txt[self.nextid] = t
        return self.nextid

    def text(self):
        return [self.txt[i] for i in self.ln]

    # ---------------------------------------------------------------- low level edit (mirrors lbuf_replace's mark rules)
    def edit(self, new_lines, beg, end, fresh=False):
        """replace [beg,end) by new_lines (None = pure deletion); fresh: the new lines are new lines (:c), not changed old ones (:s, filters)"""
        n = len(self.ln)
        beg = min(beg, n)
        end = min(end, n)
        if beg == end and new_lines is None:
            return
        ndel = end - beg
        # CAL: a replaced slot keeps the identity (and thus the global mark) of the line it held: lbuf_replace() keeps
        # ln_glob[] for the first min(n_del, n_ins) slots, so a line changed by :s is the same line for :g
        ins = []
        for k, t in enumerate([] if new_lines is None else new_lines):
            if k < ndel and not fresh:
                lid = self.ln[beg + k]
                if len(t) > MAXLINE:
                    raise TooBig()
                self.txt[lid] = t
                ins.append(lid)
            else:
                ins.append(self._new(t))
        nins = len(ins)
        self.ln[beg:end] = ins
        for m in list(self.marks):
            p = self.marks[m]
            if new_lines is None and beg <= p < beg + ndel:
                del self.marks[m]
            elif p >= beg + ndel:
                self.marks[m] = p + nins - ndel
            elif p >= beg + nins:
                self.marks[m] = beg + nins - 1
                if self.marks[m] < 0:
                    del self.marks[m]
        self.touched = True

    @staticmethod
    def split(text):
        """lines of a register/text buffer as lbuf_replace sees them"""
        if text == "":
            return []
        ls = text.split("\n")
        if ls[-1] == "":
            ls.pop()
        return ls

    # ---------------------------------------------------------------- registers
    def reg_put(self, name, text, lnmode):
        def raw(c, s, ln):
            low = c.lower() if len(c) == 1 and c.isalpha() else c
            pre = self.regs.get(low, ("", 0))[0] if (len(c) == 1 and c.isupper()) else ""
            self.regs[low] = (pre + s, ln)
        if (lnmode or "\n" in text) and (name == "" or (len(name) == 1 and name.isalpha() and name.isascii())):
            for i in range(8, 0, -1):
                if str(i) in self.regs:
                    self.regs[str(i + 1)] = self.regs[str(i)]
            self.regs["1"] = (text, lnmode)
        raw(name, text, lnmode)

    def reg_get(self, name):
        if name == '"':
            name = ""
        if len(name) == 1 and name.isupper():
            pass        # reading an upper-case name reads that slot itself (CAL); generators use lower case for reads
        return self.regs.get(name)

    # ---------------------------------------------------------------- addresses
    def matches(self, ast, line):
        root = rx.grp(rxgen.from_json(ast))
        rx.number_groups(root, 0)
        return rx.search_prio(root, rx.Ctx(line, self.icase), 0, line_mode=True) is not None

    def lineno(self, t):
        b = t["b"]
        n = self.xrow
        if b[0] == "n":
            n = b[1] - 1
        elif b[0] == "$":
            n = len(self.ln) - 1
        elif b[0] == "m":
            if b[1] not in self.marks:
                return NOADDR
            n = self.marks[b[1]]
        elif b[0] in ("/", "?"):
            d = 1 if b[0] == "/" else -1
            r = self.xrow + d
            while 0 <= r < len(self.ln) and not self.matches(b[1], self.txt[self.ln[r]]):
                r += d
            if not (0 <= r < len(self.ln)):
                n = NOADDR
            else:
                n = r
        for o in t["o"]:
            n += _atoi(o)
        return n

    def region(self, al):
        """returns (beg, end); raises Fail.  Side effect: ';' moves the current line."""
        n = len(self.ln)
        if len(al) == 1 and al[0][1]["b"] == ["%"]:
            return 0, n
        if not al:
            self.xrow = max(0, min(self.xrow, n))          # CAL: lazily clamped (repair of F7)
            return self.xrow, (self.xrow if self.xrow == n else self.xrow + 1)
        beg = end = None
        for i, (sep, t) in enumerate(al):
            if sep == ";" and 0 < end <= n:
                self.xrow = end - 1
            end0 = end
            end = self.lineno(t) + 1
            beg = end - 1 if i == 0 else end0 - 1
        if beg == -1 and end == 0:
            beg = 0
        if beg < 0 or beg >= n:
            raise FailRegion(beg, end)
        if end < beg or end > n:
            raise FailRegion(beg, end)
        return beg, end

    # ---------------------------------------------------------------- commands
    def take_block(self):
        if self.blocks_used < len(self.blocks):
            b = self.blocks[self.blocks_used]
        else:
            b = []
        self.blocks_used += 1
        return b

    def cmd(self, c):
        """execute one structured command; returns 0/1 like the ec_* functions; raises nothing"""
        try:
            return self._cmd(c)
        except Fail:
            return 1

    def _cmd(self, c):
        k = c["c"]
        al = c.get("a", [])
        n = len(self.ln)
        if k in ("a", "i", "c"):
            blk = self.take_block()      # the text block is read from the input stream before the command runs
            try:
                beg, end = self.region(al)
            except FailRegion as e:
                if not (e.beg == 0 and e.end == 0):
                    return 1
                beg, end = 0, 0
            if k == "a" and beg < end:    # repair of F1: address 0 means "before the first line"
                beg += 1
            if k != "c":
                end = beg
            self.edit(list(blk), beg, end, fresh=(k == "c"))      # (lines put in by :c are new lines for a running :g - F33, fixed 1ea49ad)
            n2 = len(self.ln)
            self.xrow = min(n2 - 1, end + n2 - n - 1)
            return 0
        if k == "d":
            beg, end = self.region(al)
            if not n:
                return 1
            self.reg_put(c.get("r", ""), "".join(self.txt[i] + "\n" for i in self.ln[beg:end]), 1)
            self.edit(None, beg, end)
            self.xrow = beg
            return 0
        if k == "y":
            beg, end = self.region(al)
            if not n:
                return 1
            self.reg_put(c.get("r", ""), "".join(self.txt[i] + "\n" for i in self.ln[beg:end]), 1)
            return 0
        if k == "pu":
            buf = self.reg_get(c.get("r", ""))
            if buf is None:
                return 1
            beg, end = self.region(al)
            self.edit(self.split(buf[0]), end, end)
            n2 = len(self.ln)
            self.xrow = min(n2 - 1, end + n2 - n - 1)
            return 0
        if k == "r":
            beg, end = self.region(al)
            content = c.get("content")
            if content is None:
                self.out.append("read failed")
                return 1
            pos = end if n else 0
            ls = self.split(content)
            self.edit(ls, pos, pos)
            self.xrow = end + len(self.ln) - n - 1
            self.out.append('"%s"  [=%d]  [r]' % (c["path"], len(self.ln) - n))
            return 0
        if k == "p":
            beg, end = self.region(al)
            for i in self.ln[beg:end]:
                self.out.append(self.txt[i] + "\n")
            self.xrow = max(beg, end - 1)
            return 0
        if k == "":
            # bare address / empty command in ex mode: advance, then print (CAL)
            self.xrow = self.xrow + 1 if self.xrow + 1 < n else self.xrow
            if not al and self.xrow >= n:
                return 1
            beg, end = self.region(al)
            for i in self.ln[beg:end]:
                self.out.append(self.txt[i] + "\n")
            self.xrow = max(beg, end - 1)
            return 0
        if k == "=":
            beg, end = self.region(al)
            self.out.append("%d\n" % end)
            return 0
        if k == "k":
            beg, end = self.region(al)
            if c["m"].islower() and c["m"].isascii() and len(c["m"]) == 1:
                if end - 1 >= 0:
                    self.marks[c["m"]] = end - 1
                else:
                    self.marks.pop(c["m"], None)      # position -1 means "not set"
            return 0
        if k == "rs":
            self.reg_put(c["r"], "".join(l + "\n" for l in c["lines"]), 1)
            return 0
        if k == "s":
            beg, end = self.region(al)
            from props.c14 import subst_line      # reference scanner (whole-line context)
            root = rx.grp(rxgen.from_json(c["pat"]))
            rx.number_groups(root, 0)
            for i in range(beg, end):
                old = self.txt[self.ln[i]]
                new, cnt, _ = subst_line(old, root, c["repl"], c.get("g", False), self.icase)
                if cnt:
                    self.edit([new], i, i + 1)
            return 0
        if k == "!":
            if not self.wa and self.modified:
                self.out.append("buffer modified")
                return 1
            beg, end = self.region(al)
            new = c["fn"]([self.txt[i] for i in self.ln[beg:end]])
            self.edit(new, beg, end)
            return 0
        if k in ("g", "v"):
            return self.do_global(c)
        if k == "list":
            ret = 0
            for sub in c["cmds"]:
                ret = self.cmd(sub)
            return ret
        raise ValueError("unknown model command " + k)

    def do_global(self, c):
        al = c.get("a", [])
        if not al and not self.gdep:
            beg, end = 0, len(self.ln)
            # ex_region("%")
        else:
            beg, end = self.region(al)
        neg = c["c"] == "v"
        pending = set(self.ln[beg:end])
        self.gdep += 1
        self.visits = getattr(self, "visits", 0)
        try:
            resume = 0
            while True:
                # specification: the lowest-index pending line.  impl variant (classification of known finding F23 only):
                # the scan resumes at min(index of the visited line, current line) and never looks above it
                lo = resume if getattr(self, "resume_by_index", False) else 0
                idx = next((i for i, lid in enumerate(self.ln) if i >= lo and lid in pending), None)
                if idx is None:
                    break
                lid = self.ln[idx]
                pending.discard(lid)
                if self.matches(c["pat"], self.txt[lid]) != neg:
                    self.xrow = idx
                    self.visits += 1
                    if self.cmd({"c": "list", "cmds": c["cmds"]}):
                        break
                    resume = max(0, min(idx, self.xrow))
                else:
                    resume = idx
        finally:
            self.gdep -= 1
        return 0


class FailRegion(Fail):
    def __init__(self, beg, end):
        Fail.__init__(self, "bad region")
        self.beg, self.end = beg, end
