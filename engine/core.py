"""Generic driver: shards of Hypothesis search + fixed replays + evidence + findings protocol.

A property module (props/cNN.py) provides

  ID, LEVEL ("exploration"|"fault_enumeration"), RULE (text), ASSUMPTIONS (list)
  prepare(build, tier)            -> dict (paths of built artefacts; runs once in the parent)
  strategy(tier)                  -> Hypothesis strategy of JSON-able cases (bytes allowed)
  run_case(env, case)             -> Outcome
  budget(tier)                    -> (examples_per_shard, nshards)
  extra(env, tier, seed)          -> optional: list of dicts describing enumerated sub-checks
                                     (each may carry 'violations': [case, ...])
"""
import hashlib
import json
import multiprocessing
import os
import signal
import sys
import time
import traceback

from . import build as buildmod
from . import runner

VERIF = buildmod.VERIF
NSHARDS = 16


# ---------------------------------------------------------------- JSON with bytes
def enc(o):
    if isinstance(o, bytes):
        return {"__b": o.decode("latin-1")}
    if isinstance(o, (list, tuple)):
        return [enc(x) for x in o]
    if isinstance(o, dict):
        return {str(k): enc(v) for k, v in o.items()}
    return o


def dec(o):
    if isinstance(o, dict):
        if set(o.keys()) == {"__b"}:
            return o["__b"].encode("latin-1")
        return {k: dec(v) for k, v in o.items()}
    if isinstance(o, list):
        return [dec(x) for x in o]
    return o


def digest(case):
    return hashlib.sha1(json.dumps(enc(case), sort_keys=True).encode()).hexdigest()[:16]


def show(o, limit=400):
    """Readable rendering of a case for evidence samples."""
    if isinstance(o, bytes):
        s = o.decode("utf-8", "backslashreplace")
        return s if len(s) <= limit else s[:limit] + "...(%d bytes)" % len(o)
    if isinstance(o, (list, tuple)):
        return [show(x, limit) for x in o[:40]] + (["...(%d items)" % len(o)] if len(o) > 40 else [])
    if isinstance(o, dict):
        return {k: show(v, limit) for k, v in o.items()}
    return o


class Outcome:
    __slots__ = ("ok", "nontrivial", "classes", "known", "detail", "inconclusive", "key")

    def __init__(self, ok=True, nontrivial=False, classes=(), known=None, detail=None,
                 inconclusive=False, key=None):
        self.ok = ok
        self.nontrivial = nontrivial
        self.classes = list(classes)
        self.known = known          # id of a known finding that explains a failing case
        self.detail = detail
        self.inconclusive = inconclusive
        self.key = key              # optional abstract key for distinctness


class Env:
    """What run_case() gets: built artefacts, a per-shard case directory, the tier."""

    def __init__(self, paths, root, tier, seed, shard=0):
        self.paths = paths
        self.root = root
        self.tier = tier
        self.seed = seed
        self.shard = shard
        self.cases = runner.CaseDir(root)

    def fresh(self):
        return self.cases.fresh()


# ---------------------------------------------------------------- findings
def load_findings(prop_id):
    p = os.path.join(VERIF, "known_findings.json")
    if not os.path.exists(p):
        return []
    return [f for f in json.load(open(p)) if f.get("property") == prop_id]


# ---------------------------------------------------------------- one shard
CASE_WATCHDOG_S = 240       # a single case normally takes milliseconds to a few seconds; this only stops a runaway reference model


class CaseWatchdog(BaseException):
    pass


def _on_alarm(signum, frame):
    raise CaseWatchdog()


def _shard(args):
    modname, paths, root, tier, seed, shard, nex, known_ids = args
    import importlib
    mod = importlib.import_module(modname)
    from hypothesis import given, settings, seed as hseed, HealthCheck, Phase
    from models import rx as _rx, lined as _lined
    os.makedirs(root, exist_ok=True)
    signal.signal(signal.SIGALRM, _on_alarm)
    env = Env(paths, root, tier, seed, shard)
    st = {"evals": 0, "nt": set(), "classes": {}, "samples": [], "known": {}, "inconc": 0,
          "fail": None, "excluded": {}, "error": None}
    strat = mod.strategy(tier, shard) if getattr(mod, "SHARD_AWARE", False) else mod.strategy(tier)

    def body(case):
        try:
            signal.setitimer(signal.ITIMER_REAL, CASE_WATCHDOG_S)
            try:
                out = mod.run_case(env, case)
            finally:
                signal.setitimer(signal.ITIMER_REAL, 0)
        except CaseWatchdog:
            from . import probe as _probe
            _probe.drop_all()
            out = Outcome(True, False, ["harness_case_watchdog_inconclusive"], inconclusive=True)
        except _rx.Budget:
            out = Outcome(True, False, ["reference_model_budget_exceeded"], inconclusive=True)
        except _lined.TooBig:
            out = Outcome(True, False, ["excluded_text_grows_geometrically"])
        failed = (not out.ok) and not (out.known and out.known in known_ids)
        if st["fail"] is None:
            st["evals"] += 1
            for c in out.classes:
                st["classes"][c] = st["classes"].get(c, 0) + 1
            if out.inconclusive:
                st["inconc"] += 1
            if not out.ok and not failed:
                st["known"][out.known] = st["known"].get(out.known, 0) + 1
                if len(st["samples"]) < 12 and ("known:" + out.known) not in [s.get("tag") for s in st["samples"]]:
                    st["samples"].append({"tag": "known:" + out.known, "case": show(case)})
            if out.nontrivial and out.ok:
                k = out.key if out.key is not None else digest(case)
                if k not in st["nt"]:
                    st["nt"].add(k)
                    if len(st["samples"]) < 6 and shard < 2:
                        st["samples"].append({"tag": "nontrivial", "case": show(case)})
        if failed:
            st["fail"] = {"case": enc(case), "detail": out.detail}
            raise AssertionError("violation")

    # Hypothesis may end a run early (large examples overrun its entropy buffer and count as invalid), so the
    # budget is spent in rounds with derived seeds until the requested number of cases has really been executed.
    base = (seed * 1000003 + shard * 7919 + int(hashlib.sha1(mod.ID.encode()).hexdigest()[:6], 16)) & 0x7fffffff
    rnd = 0
    while st["evals"] < nex and rnd < 200 and st["fail"] is None and st["error"] is None:
        before = st["evals"]
        chunk = max(10, min(nex - st["evals"], 2500))
        run = hseed((base + rnd * 104729) & 0x7fffffff)(
            settings(max_examples=chunk, database=None, deadline=None, derandomize=False,
                     suppress_health_check=list(HealthCheck), report_multiple_bugs=False,
                     phases=[Phase.generate, Phase.shrink], print_blob=False)(given(strat)(body)))
        try:
            run()
        except AssertionError:
            pass
        except BaseException as e:      # harness error: report loudly, never as a pass
            if st["fail"] is None:
                st["error"] = "".join(traceback.format_exception(type(e), e, e.__traceback__))[-4000:]
        rnd += 1
        if st["evals"] == before:
            break
    st["rounds"] = rnd
    st["nt"] = list(st["nt"])
    return st


# ---------------------------------------------------------------- replay
def replay_case(mod, env, case, times=3):
    """Re-execute a concrete case bypassing Hypothesis; returns (n_fail, last_outcome)."""
    nfail, out = 0, None
    from models import rx as _rx, lined as _lined
    for _ in range(times):
        try:
            out = mod.run_case(env, case)
        except _rx.Budget:
            out = Outcome(True, False, ["reference_model_budget_exceeded"], inconclusive=True)
        except _lined.TooBig:
            out = Outcome(True, False, ["excluded_text_grows_geometrically"])
        if not out.ok:
            nfail += 1
    return nfail, out


def write_replay(mod, case_enc, detail, tag=None):
    d = os.environ.get("VERIF_REPLAY_OUT") or os.path.join(VERIF, "replays")
    os.makedirs(d, exist_ok=True)
    h = hashlib.sha1(json.dumps(case_enc, sort_keys=True).encode()).hexdigest()[:12]
    p = os.path.join(d, "%s-%s.json" % (mod.ID, tag or h))
    with open(p, "w") as f:
        json.dump({"property": mod.ID, "case": case_enc, "detail": enc(detail)}, f, indent=1, sort_keys=True)
    return p


def write_evidence(mod, tier, seed, coverage, wall, violations, assumptions=None):
    ev = {"property_id": mod.ID, "tier": tier, "seed": seed, "level": mod.LEVEL,
          "coverage": coverage, "assumptions": assumptions or getattr(mod, "ASSUMPTIONS", []),
          "wall_s": round(wall, 2), "violations": violations}
    d = os.environ.get("VERIF_EVIDENCE_OUT") or os.path.join(VERIF, "evidence")
    os.makedirs(d, exist_ok=True)
    p = os.path.join(d, mod.ID + ".json")
    try:
        import jsonschema
        schema = json.load(open("/root/.vp/EVIDENCE.schema.json"))
        jsonschema.validate(ev, schema)
    except ImportError:
        pass
    except FileNotFoundError:
        pass
    except Exception as e:        # e.g. every shard stopped at an early violation: too few cases for the schema's minimum
        ev["coverage"]["schema_note"] = "evidence does not meet the schema on this run: " + str(e).split("\n")[0][:200]
    with open(p, "w") as f:
        json.dump(ev, f, indent=1, default=str)
    return p


# ---------------------------------------------------------------- main entry
def run_property(mod, tier, seed):
    t0 = time.time()
    scratch = buildmod.Scratch(mod.ID)
    bld = buildmod.Build(scratch)
    paths = mod.prepare(bld, tier)
    findings = load_findings(mod.ID)
    known_ids = [f["id"] for f in findings if f.get("status") == "known"]
    violations = []          # list of replay paths
    known_lines = []
    env0 = Env(paths, scratch.sub("main"), tier, seed)

    # 1. committed replays: known findings (reported, not alarms) and fixed regressions
    fixed_run = 0
    for f in findings:
        rp = f.get("replay")
        if not rp:
            continue
        rpath = os.path.join(VERIF, rp)
        case = dec(json.load(open(rpath))["case"])
        nfail, out = replay_case(mod, env0, case, 1)
        fixed_run += 1
        if f.get("status") == "known":
            if nfail:
                if out.known == f["id"]:
                    known_lines.append("KNOWN-FINDING: property=%s %s [%s]" % (mod.ID, f["what"], f["id"]))
                else:
                    # fails, but not in the way the finding describes -> a different violation
                    nf, _ = replay_case(mod, env0, case, 3)
                    if nf == 3:
                        violations.append(rpath)
        elif f.get("status") == "fixed":
            if nfail:
                nf, _ = replay_case(mod, env0, case, 3)
                if nf == 3:
                    violations.append(rpath)
    # all other committed replays of this property are plain regression checks too
    rdir = os.path.join(VERIF, "replays")
    listed = {os.path.join(VERIF, f["replay"]) for f in findings if f.get("replay")}
    regress = 0
    if os.path.isdir(rdir):
        for name in sorted(os.listdir(rdir)):
            p = os.path.join(rdir, name)
            if not name.startswith(mod.ID + "-") or p in listed:
                continue
            case = dec(json.load(open(p))["case"])
            nfail, out = replay_case(mod, env0, case, 1)
            regress += 1
            if nfail and not (out.known and out.known in known_ids):
                nf, _ = replay_case(mod, env0, case, 3)
                if nf == 3:
                    violations.append(p)

    t_rep = time.time() - t0
    # 2. enumerated sub-checks
    extras = []
    if hasattr(mod, "extra"):
        extras = mod.extra(env0, tier, seed) or []
        for e in extras:
            for vc in e.pop("violations", []):
                case_enc = enc(vc["case"])
                nf, out = replay_case(mod, env0, vc["case"], 3)
                if nf == 3 and not (out.known and out.known in known_ids):
                    violations.append(write_replay(mod, case_enc, out.detail))

    t_ext = time.time() - t0 - t_rep
    # 3. sharded random search
    nex, nshards = mod.budget(tier)
    stats = []
    if nex > 0:
        jobs = [(mod.__name__, paths, os.path.join(scratch.root, "s%d" % i), tier, seed, i, nex, known_ids)
                for i in range(nshards)]
        ctx = multiprocessing.get_context("fork")
        # (an executor, not a Pool: when a shard process is killed - e.g. by the OOM killer - a Pool waits for ever, an executor
        # raises; such a loss is a harness failure, reported as such, never a verdict)
        from concurrent.futures import ProcessPoolExecutor
        from concurrent.futures.process import BrokenProcessPool
        try:
            with ProcessPoolExecutor(max_workers=min(nshards, NSHARDS), mp_context=ctx) as ex:
                stats = list(ex.map(_shard, jobs))
        except BrokenProcessPool:
            print("HARNESS: a shard process of %s died (out of memory?); no verdict" % mod.ID)
            return 3

    evals = sum(s["evals"] for s in stats)
    nt = set()
    classes, known_hits, samples, inconc = {}, {}, [], 0
    errors = []
    for s in stats:
        nt.update(s["nt"])
        inconc += s["inconc"]
        for k, v in s["classes"].items():
            classes[k] = classes.get(k, 0) + v
        for k, v in s["known"].items():
            known_hits[k] = known_hits.get(k, 0) + v
        for smp in s["samples"]:
            if len(samples) < 10:
                samples.append(smp)
        if s["error"]:
            errors.append(s["error"])
        if s["fail"]:
            case = dec(s["fail"]["case"])
            nf, out = replay_case(mod, env0, case, 3)
            if nf == 3 and not (out.known and out.known in known_ids):
                violations.append(write_replay(mod, s["fail"]["case"], out.detail))
            else:
                classes["flaky_failure_not_reproduced"] = classes.get("flaky_failure_not_reproduced", 0) + 1

    for k in known_hits:
        f = [x for x in findings if x["id"] == k]
        line = "KNOWN-FINDING: property=%s %s [%s]" % (mod.ID, f[0]["what"] if f else k, k)
        if line not in known_lines:
            known_lines.append(line)

    ex_evals = sum(e.get("evaluations", 0) for e in extras)
    ex_nt = sum(e.get("distinct_nontrivial", 0) for e in extras)
    for e in extras:
        for smp in e.get("samples", [])[:3]:
            samples.append({"tag": "enumerated:" + e.get("name", ""), "case": smp})
    if not samples:
        samples = [{"tag": "none", "case": "no sample recorded"}]
    coverage = {
        "evaluations": evals + ex_evals + fixed_run + regress,
        "distinct_nontrivial": len(nt) + ex_nt,
        "rule": mod.RULE,
        "samples": samples,
        "random_cases": evals, "random_distinct_nontrivial": len(nt),
        "classes": dict(sorted(classes.items())),
        "enumerated": [{k: v for k, v in e.items() if k != "samples"} for e in extras],
        "exhaustive": bool(extras) and all(e.get("exhaustive") for e in extras) and nex == 0,
        "known_finding_hits": known_hits, "inconclusive": inconc,
        "regression_replays_run": fixed_run + regress,
        "shards": len(stats), "examples_per_shard": nex,
        "phase_seconds": {"build_and_replays": round(t_rep, 1), "enumerated": round(t_ext, 1),
                          "random_and_confirmation": round(time.time() - t0 - t_rep - t_ext, 1)},
    }
    if errors:
        coverage["harness_errors"] = errors[:3]
    wall = time.time() - t0
    write_evidence(mod, tier, seed, coverage, wall, len(violations))
    violations = sorted(set(violations))
    for l in known_lines:
        print(l)
    for v in violations:
        print("VIOLATION property=%s replay=%s" % (mod.ID, v))
    print("%s tier=%s seed=%d evaluations=%d nontrivial=%d violations=%d known=%s wall=%.1fs" % (
        mod.ID, tier, seed, coverage["evaluations"], coverage["distinct_nontrivial"], len(violations),
        known_hits, wall))
    if errors:
        sys.stderr.write("HARNESS ERROR in %d shard(s):\n%s\n" % (len(errors), errors[0]))
        return 2
    return 1 if violations else 0


def run_replay(mod, path):
    scratch = buildmod.Scratch(mod.ID)
    bld = buildmod.Build(scratch)
    paths = mod.prepare(bld, "quick")
    env0 = Env(paths, scratch.sub("main"), "quick", 0)
    case = dec(json.load(open(path))["case"])
    nf, out = replay_case(mod, env0, case, 3)
    known_ids = [f["id"] for f in load_findings(mod.ID) if f.get("status") == "known"]
    print(json.dumps(enc(show(out.detail)), indent=1, default=str)[:6000])
    if nf == 3:
        if out.known and out.known in known_ids:
            print("KNOWN-FINDING: property=%s [%s]" % (mod.ID, out.known))
            return 0
        print("VIOLATION property=%s replay=%s" % (mod.ID, path))
        return 1
    print("replay passes (%d/3 failures)" % nf)
    return 0
