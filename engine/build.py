"""Build the code under test from /repo's *current working tree* into a private scratch dir.

Nothing is kept between commands: the scratch directory is created per check invocation
(under $TMPDIR or /tmp) and removed at exit.
"""
import atexit
import glob
import os
import shutil
import subprocess
import sys
import tempfile
from concurrent.futures import ThreadPoolExecutor

REPO = os.environ.get("VERIF_REPO", "/repo")
VERIF = os.path.dirname(os.path.dirname(os.path.abspath(__file__)))
GUARD = "-DNEATVI_VERIF"

VI_SRCS = ["vi.c", "ex.c", "lbuf.c", "mot.c", "sbuf.c", "ren.c", "dir.c", "syn.c", "reg.c",
           "led.c", "uc.c", "term.c", "rset.c", "rstr.c", "regex.c", "cmd.c", "tag.c", "conf.c"]

# Sanitizer classes that C05 speaks about (out-of-bounds, use-after-free, garbage length,
# crashes).  nonnull-attribute (memcpy(dst, NULL, 0) in lbuf.c on every run),
# signed-integer-overflow and shift are deliberately not included; see DESIGN.md 1.2.
SAN = ["-fsanitize=address,bounds,null,alignment,object-size,return,unreachable,vla-bound",
       "-fno-sanitize-recover=all", "-fno-omit-frame-pointer"]


class Scratch:
    """A scratch directory that disappears at exit (also on violation exit paths)."""

    def __init__(self, tag):
        base = os.environ.get("TMPDIR") or "/tmp"
        self.root = tempfile.mkdtemp(prefix="nvverif.%s." % tag, dir=base)
        self._pid = os.getpid()
        atexit.register(self.cleanup)

    def cleanup(self):
        if os.getpid() == self._pid:      # forked shard workers must not remove it
            shutil.rmtree(self.root, ignore_errors=True)

    def sub(self, name):
        p = os.path.join(self.root, name)
        os.makedirs(p, exist_ok=True)
        return p


def _run(cmd, cwd):
    r = subprocess.run(cmd, cwd=cwd, stdout=subprocess.PIPE, stderr=subprocess.STDOUT)
    if r.returncode != 0:
        sys.stderr.write("BUILD FAILED: %s\n%s\n" % (" ".join(cmd), r.stdout.decode("utf-8", "replace")))
        raise SystemExit(2)
    return r


class Build:
    def __init__(self, scratch):
        self.scratch = scratch
        self.src = scratch.sub("src")
        for f in glob.glob(os.path.join(REPO, "*.[ch]")):
            shutil.copy(f, self.src)
        self._built = {}

    def _compile_all(self, cc, flags, objdir, srcs):
        os.makedirs(objdir, exist_ok=True)

        def one(s):
            o = os.path.join(objdir, os.path.basename(s)[:-2] + ".o")
            _run([cc] + flags + ["-c", s, "-o", o], self.src)
            return o
        with ThreadPoolExecutor(16) as ex:
            return list(ex.map(one, srcs))

    def vi_plain(self):
        if "plain" not in self._built:
            objs = self._compile_all("cc", ["-O2", "-w", GUARD], os.path.join(self.scratch.root, "o.plain"), VI_SRCS)
            out = os.path.join(self.scratch.root, "vi.plain")
            _run(["cc", "-o", out] + objs, self.src)
            self._built["plain"] = out
        return self._built["plain"]

    def vi_asan(self):
        if "asan" not in self._built:
            fl = ["-O1", "-g", "-w", GUARD] + SAN
            objs = self._compile_all("clang", fl, os.path.join(self.scratch.root, "o.asan"), VI_SRCS)
            out = os.path.join(self.scratch.root, "vi.asan")
            _run(["clang", "-o", out] + SAN + objs, self.src)
            self._built["asan"] = out
        return self._built["asan"]

    def vi_cov(self):
        """source-coverage build (clang -fprofile-instr-generate -fcoverage-mapping) used only to report how much of each file a sample reaches"""
        if "cov" not in self._built:
            fl = ["-O0", "-g", "-w", GUARD, "-fprofile-instr-generate", "-fcoverage-mapping"]
            objs = self._compile_all("clang", fl, os.path.join(self.scratch.root, "o.cov"), VI_SRCS)
            out = os.path.join(self.scratch.root, "vi.cov")
            _run(["clang", "-fprofile-instr-generate", "-o", out] + objs, self.src)
            self._built["cov"] = out
        return self._built["cov"]

    def probe(self, name, extra_srcs=(), san=True, opt="-O1", libs=()):
        """Build /verif/probe/<name>.c (which may #include repository .c files) into an
        executable in the scratch dir.  -I points at the copied repository sources."""
        key = "probe:" + name
        if key not in self._built:
            out = os.path.join(self.scratch.root, name)
            fl = [opt, "-g", "-w", GUARD, "-I", self.src, "-I", os.path.join(VERIF, "probe")]
            if san:
                fl += SAN
            srcs = [os.path.join(VERIF, "probe", name + ".c")] + [os.path.join(self.src, s) for s in extra_srcs]
            _run(["clang"] + fl + ["-o", out] + srcs + list(libs), self.src)
            self._built[key] = out
        return self._built[key]

    def fuzzer(self, name, extra_srcs=()):
        """libFuzzer target from /verif/probe/<name>.c"""
        key = "fuzz:" + name
        if key not in self._built:
            out = os.path.join(self.scratch.root, name)
            fl = ["-O1", "-g", "-w", GUARD, "-I", self.src, "-I", os.path.join(VERIF, "probe"),
                  "-fsanitize=fuzzer,address,bounds,null,alignment,object-size", "-fno-sanitize-recover=all"]
            srcs = [os.path.join(VERIF, "probe", name + ".c")] + [os.path.join(self.src, s) for s in extra_srcs]
            _run(["clang"] + fl + ["-o", out] + srcs, self.src)
            self._built[key] = out
        return self._built[key]

    def shim(self, name):
        key = "shim:" + name
        if key not in self._built:
            out = os.path.join(self.scratch.root, name + ".so")
            _run(["cc", "-O1", "-w", "-fPIC", "-shared", "-o", out, os.path.join(VERIF, "probe", name + ".c"), "-ldl"], self.src)
            self._built[key] = out
        return self._built[key]

    def probe_so(self, name, extra_srcs=(), opt="-O1"):
        """Shared-object probe for ctypes (no sanitizer: the ASan twin is the executable)."""
        key = "so:" + name
        if key not in self._built:
            out = os.path.join(self.scratch.root, name + ".so")
            fl = [opt, "-g", "-w", "-fPIC", "-shared", GUARD, "-I", self.src, "-I", os.path.join(VERIF, "probe")]
            srcs = [os.path.join(VERIF, "probe", name + ".c")] + [os.path.join(self.src, s) for s in extra_srcs]
            _run(["clang"] + fl + ["-o", out] + srcs, self.src)
            self._built[key] = out
        return self._built[key]
