"""Run the real editor binary on one generated case, safely and deterministically."""
import os
import resource
import shutil
import signal
import subprocess

EX_TRAILER = b".\nq!\n" * 200
VI_TRAILER = b"\x1b\x1b\x1b:\x05q!\n" * 20      # ^E: the ex prompt keymap is sticky (^F in a prompt selects the alternate keymap)

ASAN_OPTIONS = "detect_leaks=0:abort_on_error=0:exitcode=97:allocator_may_return_null=1:handle_abort=1:detect_stack_use_after_return=0"
UBSAN_OPTIONS = "print_stacktrace=1:halt_on_error=1:exitcode=98"


class Run:
    __slots__ = ("rc", "sig", "out", "err", "timeout", "depcut", "cpu_exceeded", "twin", "dir")

    def crashed(self):
        """ASan/UBSan report, fatal signal, or non-zero exit (main() always returns 0)."""
        return (self.sig is not None and not self.timeout) or (self.rc not in (0, None)) \
            or b"ERROR: AddressSanitizer" in self.err or b"runtime error:" in self.err

    def signature(self):
        """Short description of a crash, used to tell root causes apart in reports."""
        for line in self.err.splitlines():
            if b"ERROR: AddressSanitizer" in line or b"runtime error:" in line:
                frames = [l.strip() for l in self.err.splitlines() if l.strip().startswith(b"#")][:4]
                return (line.decode("latin-1")[:200], [f.decode("latin-1")[:160] for f in frames])
        return ("rc=%r sig=%r timeout=%r" % (self.rc, self.sig, self.timeout), [])


def _limits(cpu, fsize):
    def f():
        resource.setrlimit(resource.RLIMIT_CPU, (cpu, cpu + 1))
        resource.setrlimit(resource.RLIMIT_FSIZE, (fsize, fsize))
        resource.setrlimit(resource.RLIMIT_CORE, (0, 0))
    return f


def run_editor(binary, argv, stdin, cwd, rows=24, cols=80, cpu=10, wall=40, env_extra=None,
               fsize=64 << 20, want_stats=True):
    env = {"EXINIT": "", "LINES": str(rows), "COLUMNS": str(cols), "PATH": "/usr/bin:/bin",
           "ASAN_OPTIONS": ASAN_OPTIONS, "UBSAN_OPTIONS": UBSAN_OPTIONS, "TAGPATH": "tags",
           "HOME": cwd, "TERM": "vt100"}
    stats = None
    if want_stats:
        stats = os.path.join(cwd, ".nvstats")
        env["NEATVI_VERIF_STATS"] = stats
    if env_extra:
        env.update(env_extra)
    p = subprocess.Popen([binary] + list(argv), cwd=cwd, env=env, stdin=subprocess.PIPE,
                         stdout=subprocess.PIPE, stderr=subprocess.PIPE, start_new_session=True,
                         preexec_fn=_limits(cpu, fsize))
    r = Run()
    r.timeout = False
    try:
        r.out, r.err = p.communicate(stdin, timeout=wall)
    except subprocess.TimeoutExpired:
        r.timeout = True
        try:
            os.killpg(p.pid, signal.SIGKILL)
        except ProcessLookupError:
            pass
        r.out, r.err = p.communicate()
    # kill stray children of shell commands started by the editor, if any
    try:
        os.killpg(p.pid, signal.SIGKILL)
    except (ProcessLookupError, PermissionError):
        pass
    rc = p.returncode
    r.rc, r.sig = (rc, None) if rc >= 0 else (None, -rc)
    r.cpu_exceeded = r.sig in (signal.SIGXCPU, signal.SIGKILL) and not r.timeout
    if r.sig in (signal.SIGXCPU,):
        r.timeout = True
    r.depcut = None
    if stats and os.path.exists(stats):
        try:
            r.depcut = int(open(stats).read().split()[1])
        except Exception:
            r.depcut = None
        os.unlink(stats)
    return r


class CaseDir:
    """Fresh directory per case inside the shard's scratch area."""

    def __init__(self, root):
        self.root = root
        self.n = 0

    def fresh(self):
        self.n += 1
        d = os.path.join(self.root, "c")
        shutil.rmtree(d, ignore_errors=True)
        os.makedirs(d)
        return d


def write_file(d, name, data):
    with open(os.path.join(d, name), "wb") as f:
        f.write(data)


def list_files(d):
    return sorted(os.listdir(d))


def read_file(d, name):
    try:
        with open(os.path.join(d, name), "rb") as f:
            return f.read()
    except FileNotFoundError:
        return None
