"""Client for probe/psrv.c (line protocol).  A server death (ASan/UBSan abort, signal) is
reported as ProbeCrash carrying the request that was being processed and the sanitizer text."""
import os
import select
import subprocess

from . import runner

PSRV_SRCS = ["ren.c", "dir.c", "conf.c", "rset.c", "regex.c", "lbuf.c", "mot.c", "reg.c", "sbuf.c"]


def build_psrv(build):
    return build.probe("psrv", extra_srcs=PSRV_SRCS)


class ProbeCrash(Exception):
    def __init__(self, req, err):
        Exception.__init__(self, "probe died on %r" % (req[:200],))
        self.req = req
        self.err = err


def hx(b):
    if isinstance(b, str):
        b = b.encode("utf-8")
    return b.hex() if b else "-"


class ProbeTimeout(Exception):
    def __init__(self, req):
        Exception.__init__(self, "probe request exceeded its time budget: %r" % (req[:300],))
        self.req = req


class Probe:
    def __init__(self, path, timeout=20.0):
        self.path = path
        self.p = None
        self.timeout = timeout

    def _start(self):
        env = {"ASAN_OPTIONS": runner.ASAN_OPTIONS, "UBSAN_OPTIONS": runner.UBSAN_OPTIONS, "PATH": "/usr/bin:/bin"}
        self.p = subprocess.Popen([self.path], stdin=subprocess.PIPE, stdout=subprocess.PIPE, stderr=subprocess.PIPE, env=env)

    def call_raw(self, req):
        if self.p is None or self.p.poll() is not None:
            self._start()
        try:
            self.p.stdin.write(req.encode("ascii") + b"\n")
            self.p.stdin.flush()
            rl, _, _ = select.select([self.p.stdout], [], [], self.timeout)
            if not rl:
                self.p.kill()
                self.p.wait()
                self.p = None
                raise ProbeTimeout(req)
            line = self.p.stdout.readline()
        except BrokenPipeError:
            line = b""
        if not line:
            try:
                err = self.p.stderr.read().decode("utf-8", "replace")
            except Exception:
                err = ""
            self.p.wait()
            self.p = None
            raise ProbeCrash(req, err[-3000:])
        return line.decode("ascii").rstrip("\n")

    def call(self, op, *args):
        """returns list of sections, each a list of ints"""
        req = op + " " + " ".join(str(a) for a in args)
        out = self.call_raw(req)
        return [[int(x) for x in sec.split()] for sec in out.split("|")]

    def close(self):
        if self.p and self.p.poll() is None:
            try:
                self.p.stdin.close()
                self.p.wait(timeout=5)
            except Exception:
                self.p.kill()
        self.p = None


_cache = {}


def get(env):
    """one server per shard process"""
    key = (os.getpid(), env.paths["psrv"])
    if key not in _cache:
        _cache[key] = Probe(env.paths["psrv"])
    return _cache[key]


def drop_all():
    """forget (and kill) this process's servers: used after a case was abandoned in the middle of a request"""
    for k in [k for k in _cache if k[0] == os.getpid()]:
        try:
            _cache[k].p.kill()
        except Exception:
            pass
        del _cache[k]
