import argparse
import importlib
import os
import sys

from . import core


def main():
    ap = argparse.ArgumentParser()
    ap.add_argument("prop")
    ap.add_argument("--tier", default=os.environ.get("VERIF_TIER", "quick"), choices=["quick", "thorough"])
    ap.add_argument("--replay")
    ap.add_argument("--seed", type=int, default=None)
    a = ap.parse_args()
    seed = a.seed if a.seed is not None else int(os.environ.get("VERIF_SEED", "0") or 0)
    mod = importlib.import_module("props." + a.prop.lower())
    if a.replay:
        sys.exit(core.run_replay(mod, a.replay))
    sys.exit(core.run_property(mod, a.tier, seed))


if __name__ == "__main__":
    main()
