/*
 * C04 (line-buffer level): exhaustive / replayed operation sequences on struct lbuf against an
 * independent snapshot model.  Also checks the modified flag (C02's line-buffer half): N
 * (= lbuf_modified, "a command ended") returns whether the text's history position differs from
 * the one recorded by S (= lbuf_saved).
 *
 * usage: p04 enum <depth> <alphabet: full|small> <first-op or -1>   -> "OK <nseq> <nops> <nontrivial>" or "FAIL <start> <ops...>: why"
 *        p04 run <start> <op> <op> ...                                  (ops as printed by FAIL; or E:pos:ndel:hextext)
 *
 * The editor ends every command with lbuf_modified(); undo, redo and write are commands of their
 * own.  The enumeration therefore uses: E.. (edits inside the current command), N (command ends),
 * U = N undo N, R = N redo N, S = N saved N.
 */
#include <stdio.h>
#include <stdlib.h>
#include <string.h>
#include "vi.h"

int xrow, xoff, xtop, xleft, xic = 1, xtd, xshape = 1, xorder = 1, xlim = 256;
static struct lbuf *cur_lb;
struct lbuf *ex_lbuf(void) { return cur_lb; }

/* ---------------- reference model: stack of snapshots ---------------- */
#define MAXL 4096
#define MAXH 1024
struct snap { char **ln; int n; int id; };
static struct snap hist[MAXH];
static int top, cur, open_grp, next_id, saved_id;

static struct snap snap_copy(struct snap *s)
{
	struct snap r;
	int i;
	r.n = s->n;
	r.ln = malloc((s->n + 1) * sizeof(char *));
	for (i = 0; i < s->n; i++)
		r.ln[i] = strdup(s->ln[i]);
	r.id = next_id++;
	return r;
}

static void snap_free(struct snap *s)
{
	int i;
	for (i = 0; i < s->n; i++)
		free(s->ln[i]);
	free(s->ln);
	s->ln = NULL;
	s->n = 0;
}

/* replace lines [beg, beg+ndel) of snapshot s by the lines of text (NULL: none) */
static void snap_edit(struct snap *s, int beg, int ndel, char *text)
{
	char *nl[MAXL];
	int nn = 0, i;
	char **res;
	if (text) {
		char *p = text;
		while (*p) {
			char *e = strchr(p, '\n');
			int l = e ? e - p : (int) strlen(p);
			char *x = malloc(l + 2);
			memcpy(x, p, l);
			x[l] = '\n';
			x[l + 1] = 0;
			nl[nn++] = x;
			p += e ? l + 1 : l;
		}
	}
	res = malloc((s->n - ndel + nn + 1) * sizeof(char *));
	for (i = 0; i < beg; i++)
		res[i] = s->ln[i];
	for (i = 0; i < nn; i++)
		res[beg + i] = nl[i];
	for (i = beg + ndel; i < s->n; i++)
		res[i - ndel + nn] = s->ln[i];
	for (i = beg; i < beg + ndel; i++)
		free(s->ln[i]);
	free(s->ln);
	s->ln = res;
	s->n = s->n - ndel + nn;
}

static char why[256];

static int compare(struct lbuf *lb)
{
	struct snap *s = &hist[cur];
	int i;
	if (lbuf_len(lb) != s->n) {
		snprintf(why, sizeof(why), "line count %d, model %d", lbuf_len(lb), s->n);
		return 1;
	}
	for (i = 0; i < s->n; i++)
		if (!lbuf_get(lb, i) || strcmp(lbuf_get(lb, i), s->ln[i])) {
			snprintf(why, sizeof(why), "line %d differs", i);
			return 1;
		}
	if (lbuf_get(lb, s->n) != NULL || lbuf_get(lb, -1) != NULL) {
		snprintf(why, sizeof(why), "lbuf_get out of range not NULL");
		return 1;
	}
	return 0;
}

static int do_N(struct lbuf *lb)
{
	int m = lbuf_modified(lb);
	open_grp = 0;
	if (!!m != (hist[cur].id != saved_id)) {
		snprintf(why, sizeof(why), "modified flag %d, model %d", !!m, hist[cur].id != saved_id);
		return 1;
	}
	return 0;
}

static int do_E(struct lbuf *lb, int beg, int ndel, char *text)
{
	int n = hist[cur].n, i;
	/* the line buffer is handed the range as the editor's callers pass it (it may reach beyond the last line, e.g. dd on
	 * an empty buffer is lbuf_edit(lb, NULL, 0, 1)); the reference clamps */
	lbuf_edit(lb, text, beg, beg + ndel);
	if (beg > n)
		beg = n;
	if (beg + ndel > n)
		ndel = n - beg;
	if (ndel == 0 && !text)
		return compare(lb);		/* documented no-op */
	if (!open_grp) {
		for (i = cur + 1; i <= top; i++)
			snap_free(&hist[i]);
		hist[cur + 1] = snap_copy(&hist[cur]);
		cur++;
		top = cur;
		open_grp = 1;
	} else {
		/* a further sub-edit of the same command: same undo step; identity changes only if it was the saved one */
	}
	snap_edit(&hist[cur], beg, ndel, text);
	return compare(lb);
}

static int do_U(struct lbuf *lb)
{
	int r;
	if (do_N(lb))
		return 1;
	r = lbuf_undo(lb);
	if (cur == 0) {
		if (!r) {
			snprintf(why, sizeof(why), "undo at the start of history succeeded");
			return 1;
		}
	} else {
		if (r) {
			snprintf(why, sizeof(why), "undo failed with %d step(s) available", cur);
			return 1;
		}
		cur--;
	}
	if (compare(lb))
		return 1;
	return do_N(lb);
}

static int do_R(struct lbuf *lb)
{
	int r;
	if (do_N(lb))
		return 1;
	r = lbuf_redo(lb);
	if (cur == top) {
		if (!r) {
			snprintf(why, sizeof(why), "redo at the end of history succeeded");
			return 1;
		}
	} else {
		if (r) {
			snprintf(why, sizeof(why), "redo failed with %d step(s) available", top - cur);
			return 1;
		}
		cur++;
	}
	if (compare(lb))
		return 1;
	return do_N(lb);
}

static int do_P(struct lbuf *lb)
{
	if (do_N(lb))
		return 1;
	lbuf_unsaved(lb);
	saved_id = -1;			/* no undo position is the saved one any more */
	return do_N(lb);
}

static int do_S(struct lbuf *lb)
{
	if (do_N(lb))
		return 1;
	lbuf_saved(lb, 0);
	saved_id = hist[cur].id;
	return do_N(lb);
}

/* ---------------- op alphabets ---------------- */
static char *texts[] = {NULL, "a\n", "b\nc\n"};
#define NE 27
#define OP_N (NE)
#define OP_U (NE + 1)
#define OP_R (NE + 2)
#define OP_S (NE + 3)
#define OP_P (NE + 4)		/* partial write of the own file: lbuf_unsaved() */
#define NFULL (NE + 5)
#define NSMALL 9
static int small_ops[NSMALL] = {0 * 9 + 0 * 3 + 1 /* E(first,0,"a") */, 2 * 9 + 0 * 3 + 2 /* E(end,0,"b c") */,
	0 * 9 + 1 * 3 + 0 /* E(first,1,NULL) */, 1 * 9 + 1 * 3 + 1 /* E(mid,1,"a") */, OP_N, OP_U, OP_R, OP_S, OP_P};

static int apply(struct lbuf *lb, int op)
{
	if (op < NE) {
		int posk = op / 9, ndel = (op / 3) % 3, t = op % 3;
		int n = hist[cur].n;
		int beg = posk == 0 ? 0 : posk == 1 ? n / 2 : n;
		return do_E(lb, beg, ndel, texts[t]);
	}
	if (op == OP_N)
		return do_N(lb);
	if (op == OP_U)
		return do_U(lb);
	if (op == OP_R)
		return do_R(lb);
	if (op == OP_P)
		return do_P(lb);
	return do_S(lb);
}

static struct lbuf *fresh(int start)
{
	struct lbuf *lb = lbuf_make();
	struct snap s0;
	int i;
	cur_lb = lb;
	for (i = 0; i <= top; i++)
		snap_free(&hist[i]);
	top = cur = open_grp = 0;
	next_id = 1;
	s0.n = 0;
	s0.ln = malloc(sizeof(char *));
	s0.id = next_id++;
	hist[0] = s0;
	if (start == 1)
		lbuf_edit(lb, "x\n", 0, 0), snap_edit(&hist[0], 0, 0, "x\n");
	if (start == 2)
		lbuf_edit(lb, "x\ny\n", 0, 0), snap_edit(&hist[0], 0, 0, "x\ny\n");
	lbuf_saved(lb, 1);		/* like ec_edit: mark saved and clear the history */
	saved_id = hist[0].id;
	return lb;
}

static long nseq, nops, nnontriv;

static int run_seq(int start, int *ops, int n, int *failed_at)
{
	struct lbuf *lb = fresh(start);
	int i, nu = 0, nr = 0, ne = 0;
	for (i = 0; i < n; i++) {
		nops++;
		if (apply(lb, ops[i])) {
			*failed_at = i;
			lbuf_free(lb);
			return 1;
		}
		nu += ops[i] == OP_U;
		nr += ops[i] == OP_R;
		ne += ops[i] < NE;
	}
	if (do_N(lb)) {
		*failed_at = n;
		lbuf_free(lb);
		return 1;
	}
	nseq++;
	if (nu >= 1 && ne >= 1 && (nr >= 1 || nu >= 2))
		nnontriv++;
	lbuf_free(lb);
	return 0;
}

static int enumerate(int depth, int *alpha, int na, int first)
{
	int ops[16], idx[16], d, start, i, fa;
	for (d = 1; d <= depth; d++) {
		for (start = 0; start < 3; start++) {
			for (i = 0; i < d; i++)
				idx[i] = 0;
			if (first >= 0)
				idx[0] = first;
			while (1) {
				for (i = 0; i < d; i++)
					ops[i] = alpha[idx[i]];
				if (run_seq(start, ops, d, &fa)) {
					printf("FAIL %d", start);
					for (i = 0; i < d; i++)
						printf(" %d", ops[i]);
					printf(" : at op %d: %s\n", fa, why);
					return 1;
				}
				for (i = d - 1; i >= (first >= 0 ? 1 : 0); i--) {
					if (++idx[i] < na)
						break;
					idx[i] = 0;
				}
				if (i < (first >= 0 ? 1 : 0))
					break;
			}
		}
	}
	return 0;
}

static char *unhex(char *h)
{
	int n = strlen(h) / 2, i;
	char *s = malloc(n + 1);
	for (i = 0; i < n; i++) {
		unsigned v;
		sscanf(h + 2 * i, "%2x", &v);
		s[i] = v;
	}
	s[n] = 0;
	return s;
}

int main(int argc, char **argv)
{
	int i;
	if (argc >= 5 && !strcmp(argv[1], "enum")) {
		int depth = atoi(argv[2]);
		int first = atoi(argv[4]);
		int full[NFULL];
		for (i = 0; i < NFULL; i++)
			full[i] = i;
		if (!strcmp(argv[3], "full")) {
			if (enumerate(depth, full, NFULL, first))
				return 1;
		} else {
			if (enumerate(depth, small_ops, NSMALL, first))
				return 1;
		}
		printf("OK %ld %ld %ld\n", nseq, nops, nnontriv);
		return 0;
	}
	if (argc >= 3 && !strcmp(argv[1], "run")) {
		struct lbuf *lb = fresh(atoi(argv[2]));
		int nu = 0, nr = 0, ne = 0;
		for (i = 3; i < argc; i++) {
			int bad;
			if (argv[i][0] == 'E') {		/* E:pos:ndel:hextext or E:pos:ndel:- (NULL) */
				int pos, ndel;
				char hex[1 << 16];
				char *t = NULL;
				sscanf(argv[i], "E:%d:%d:%65535s", &pos, &ndel, hex);
				if (strcmp(hex, "-"))
					t = unhex(hex);
				bad = do_E(lb, pos, ndel, t);
				free(t);
				ne++;
			} else {
				int op = atoi(argv[i]);
				bad = apply(lb, op);
				nu += op == OP_U;
				nr += op == OP_R;
				ne += op < NE;
			}
			if (bad) {
				printf("FAIL at op %d (%s): %s\n", i - 3, argv[i], why);
				return 1;
			}
		}
		if (do_N(lb)) {
			printf("FAIL at end: %s\n", why);
			return 1;
		}
		printf("OK %d %d %d\n", ne, nu, nr);
		return 0;
	}
	fprintf(stderr, "usage\n");
	return 2;
}
