/*
 * LD_PRELOAD fault injector for C03.  Tracks descriptors opened for writing on the path named by
 * NVFI_PATH and follows a fault plan over the sequence of open/write/close calls on them:
 *   NVFI_PLAN = "<idx>:<kind>[,<idx>:<kind>...]"   idx counts tracked calls from 0
 *   kind = E<errno>   fail with that errno (nothing is written)
 *          S<k>       short count: really write min(k, n-1) >= 1 bytes and return that
 *   NVFI_LOG  = file to which every tracked call is appended ("open", "write <n>", "truncate", "close", with the fault applied)
 *   NVFI_RPATH / NVFI_RFLAG: reads on a descriptor opened read-only on NVFI_RPATH while the file NVFI_RFLAG existed fail with EIO
 */
#define _GNU_SOURCE
#include <dlfcn.h>
#include <errno.h>
#include <fcntl.h>
#include <stdarg.h>
#include <stdio.h>
#include <stdlib.h>
#include <string.h>
#include <unistd.h>

static int tracked[1024];
static int callidx;

static const char *base(const char *p)
{
	const char *s = strrchr(p, '/');
	return s ? s + 1 : p;
}

static void logcall(const char *what)
{
	const char *lp = getenv("NVFI_LOG");
	int (*ropen)(const char *, int, ...) = dlsym(RTLD_NEXT, "open");
	ssize_t (*rwrite)(int, const void *, size_t) = dlsym(RTLD_NEXT, "write");
	int (*rclose)(int) = dlsym(RTLD_NEXT, "close");
	if (lp) {
		int fd = ropen(lp, O_WRONLY | O_CREAT | O_APPEND, 0600);
		if (fd >= 0) {
			rwrite(fd, what, strlen(what));
			rwrite(fd, "\n", 1);
			rclose(fd);
		}
	}
}

/* returns 0: no fault; 1: error (errno set); 2: short count (*k set) */
static int fault(int *k)
{
	const char *plan = getenv("NVFI_PLAN");
	int idx = callidx++;
	while (plan && *plan) {
		int i = atoi(plan);
		const char *c = strchr(plan, ':');
		if (!c)
			break;
		if (i == idx) {
			if (c[1] == 'E') {
				errno = atoi(c + 2);
				return 1;
			}
			if (c[1] == 'S') {
				*k = atoi(c + 2);
				return 2;
			}
		}
		plan = strchr(c, ',');
		if (plan)
			plan++;
	}
	return 0;
}

static int is_target(const char *path, int flags)
{
	const char *t = getenv("NVFI_PATH");
	return t && (flags & (O_WRONLY | O_RDWR)) && !strcmp(base(path), t);
}

static int rtracked[1024];

static int do_open(const char *path, int flags, int mode, const char *name)
{
	int (*ropen)(const char *, int, ...) = dlsym(RTLD_NEXT, name);
	int fd, k;
	char msg[64];
	const char *rp = getenv("NVFI_RPATH");
	const char *rf = getenv("NVFI_RFLAG");
	if (rp && rf && !(flags & (O_WRONLY | O_RDWR)) && !strcmp(base(path), rp)) {
		fd = ropen(path, flags, mode);
		if (fd >= 0 && fd < 1024)
			rtracked[fd] = access(rf, F_OK) == 0;
		return fd;
	}
	if (is_target(path, flags)) {
		int f = fault(&k);
		snprintf(msg, sizeof(msg), "open%s", f == 1 ? " FAULT" : "");
		logcall(msg);
		if (f == 1)
			return -1;
		fd = ropen(path, flags, mode);
		if (fd >= 0 && fd < 1024)
			tracked[fd] = 1;
		return fd;
	}
	return ropen(path, flags, mode);
}

int open(const char *path, int flags, ...)
{
	va_list ap;
	int mode;
	va_start(ap, flags);
	mode = va_arg(ap, int);
	va_end(ap);
	return do_open(path, flags, mode, "open");
}

int open64(const char *path, int flags, ...)
{
	va_list ap;
	int mode;
	va_start(ap, flags);
	mode = va_arg(ap, int);
	va_end(ap);
	return do_open(path, flags, mode, "open64");
}

ssize_t write(int fd, const void *buf, size_t n)
{
	ssize_t (*rwrite)(int, const void *, size_t) = dlsym(RTLD_NEXT, "write");
	if (fd >= 0 && fd < 1024 && tracked[fd]) {
		int k = 0;
		int f = fault(&k);
		char msg[64];
		snprintf(msg, sizeof(msg), "write %ld%s", (long) n, f == 1 ? " FAULT" : f == 2 ? " SHORT" : "");
		logcall(msg);
		if (f == 1)
			return -1;
		if (f == 2 && n > 1) {
			if (k >= (int) n)
				k = n - 1;
			if (k < 1)
				k = 1;
			return rwrite(fd, buf, k);
		}
	}
	return rwrite(fd, buf, n);
}

/* the final cut of the file to its new length belongs to the write sequence */
static int do_truncate(int fd, long long sz, const char *name)
{
	int (*rtrunc)(int, off_t) = dlsym(RTLD_NEXT, "ftruncate");
	if (fd >= 0 && fd < 1024 && tracked[fd]) {
		int k;
		int f = fault(&k);
		logcall(f == 1 ? "truncate FAULT" : "truncate");
		if (f == 1)
			return -1;
	}
	return rtrunc(fd, (off_t) sz);
}

int ftruncate(int fd, off_t sz)
{
	return do_truncate(fd, sz, "ftruncate");
}

int ftruncate64(int fd, off64_t sz)
{
	return do_truncate(fd, sz, "ftruncate64");
}

/* C19: when the key 0x1c (unbound in vi) is read from the terminal, emit a marker on fd 1: everything the
 * editor wrote for the keys before it precedes the marker (each main-loop iteration commits its output) */
ssize_t read(int fd, void *buf, size_t n)
{
	ssize_t (*rread)(int, void *, size_t) = dlsym(RTLD_NEXT, "read");
	ssize_t (*rwrite)(int, const void *, size_t) = dlsym(RTLD_NEXT, "write");
	ssize_t r;
	if (fd >= 0 && fd < 1024 && rtracked[fd]) {	/* a read-only descriptor on NVFI_RPATH opened while NVFI_RFLAG existed */
		errno = EIO;
		return -1;
	}
	r = rread(fd, buf, n);
	if (fd == 0 && r == 1 && *(unsigned char *) buf == 0x1c && getenv("NVFI_MARK"))
		rwrite(1, "\0MARK\0", 6);
	return r;
}

int close(int fd)
{
	int (*rclose)(int) = dlsym(RTLD_NEXT, "close");
	if (fd >= 0 && fd < 1024)
		rtracked[fd] = 0;
	if (fd >= 0 && fd < 1024 && tracked[fd]) {
		int k;
		int f = fault(&k);
		logcall(f == 1 ? "close FAULT" : "close");
		tracked[fd] = 0;
		if (f == 1) {
			int e = errno;
			rclose(fd);		/* like the kernel: the descriptor is gone even when close() reports an error */
			errno = e;
			return -1;
		}
	}
	return rclose(fd);
}
