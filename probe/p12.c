/*
 * C12 exhaustive differential: literal fast path (rstr_find, rs->str != NULL) vs the general engine
 * (rset_find on the same pattern), for all {^,-}{\<,-}literal{\>,-}{$,-} with literal length <= L
 * over a 6-character alphabet, all lines of <= 4 characters over the same alphabet + '\n',
 * and the 8 combinations of ICASE/NOTBOL/NOTEOL.
 *
 * usage: p12 <maxlit> <shard> <nshards>
 * output: one line per mismatch class "CLASS <key> <count> <pattern-hex> <line-hex> <flags> : fast=(r,so,eo,g1s,g1e) eng=(r,so,eo)"
 *         then "TOTAL <comparisons> <literal-path-taken> <nontrivial> <depcut-discarded>"
 */
#include <ctype.h>
#include <stdio.h>
#include <stdlib.h>
#include <string.h>
#include "vi.h"
#include "rstr.c"

int xrow, xoff, xtop, xleft, xic = 1, xtd, xshape = 1, xorder = 1, xlim = 256;
struct lbuf *ex_lbuf(void) { return NULL; }
extern int re_verif_depcut;

static char *alpha[] = {"a", "B", "_", " ", "-", "\xc3\xa9"};
#define NA 6

struct cls { char key[64]; long cnt; char pat[64], line[64]; int flags; char desc[128]; };
static struct cls classes[256];
static int ncls;

static void record(char *key, char *pat, char *line, int flags, char *desc)
{
	int i;
	for (i = 0; i < ncls; i++)
		if (!strcmp(classes[i].key, key)) {
			classes[i].cnt++;
			return;
		}
	if (ncls < 256) {
		strcpy(classes[ncls].key, key);
		classes[ncls].cnt = 1;
		strcpy(classes[ncls].pat, pat);
		strcpy(classes[ncls].line, line);
		classes[ncls].flags = flags;
		strcpy(classes[ncls].desc, desc);
		ncls++;
	}
}

static void hexout(char *s)
{
	if (!*s)
		printf("-");
	for (; *s; s++)
		printf("%02x", (unsigned char) *s);
}

static long total, taken, nontriv, discarded;

static void compare(char *pat, char *line)
{
	int f;
	for (f = 0; f < 8; f++) {
		int mflags = f & 1 ? RE_ICASE : 0;
		int gflags = (f & 2 ? RE_NOTBOL : 0) | (f & 4 ? RE_NOTEOL : 0);
		int g1[4] = {-7, -7, -7, -7}, g2[4] = {-7, -7, -7, -7};
		struct rstr *rs = rstr_make(pat, mflags);
		char *pp = pat;
		struct rset *re = rset_make(1, &pp, mflags);
		int r1, r2, cut0 = re_verif_depcut;
		char *heapline = malloc(strlen(line) + 1);	/* exact-size copy: ASan sees out-of-line reads */
		strcpy(heapline, line);
		total++;
		if (!rs || !re) {
			char d[128];
			snprintf(d, sizeof(d), "rstr=%p rset=%p", (void *) rs, (void *) re);
			record("compile-differs", pat, line, f, d);
			if (rs) rstr_free(rs);
			if (re) rset_free(re);
			free(heapline);
			continue;
		}
		if (rs->str) {
			taken++;
			r1 = rstr_find(rs, heapline, 2, g1, gflags);
			r2 = rset_find(re, heapline, 2, g2, gflags);
			if (re_verif_depcut != cut0) {
				discarded++;
			} else {
				int found1 = r1 >= 0, found2 = r2 >= 0;
				char key[64], d[128];
				if ((strchr(pat, '^') || strchr(pat, '$') || strchr(pat, '\\')) && strlen(line) > 1)
					nontriv++;
				key[0] = 0;
				if (found1 != found2 && found2 && g2[0] == (int) strlen(line))
					snprintf(key, sizeof(key), "afterterm:bol%d:eol%d:nb%d:ne%d", rs->lbeg, rs->lend,
						!!(gflags & RE_NOTBOL), !!(gflags & RE_NOTEOL));
				else if (found1 != found2)
					snprintf(key, sizeof(key), "found:%d/%d:bol%d:eol%d:nb%d:ne%d", found1, found2,
						rs->lbeg, rs->lend, !!(gflags & RE_NOTBOL), !!(gflags & RE_NOTEOL));
				else if (found1 && (g1[0] != g2[0] || g1[1] != g2[1]))
					snprintf(key, sizeof(key), "offsets:bol%d:eol%d:wb%d:we%d:ic%d", rs->lbeg, rs->lend, rs->wbeg, rs->wend, !!mflags);
				else if (found1 && (g1[2] != -1 || g1[3] != -1))
					snprintf(key, sizeof(key), "group1-not-unset");
				if (key[0]) {
					snprintf(d, sizeof(d), "fast=(%d,%d,%d,%d,%d) eng=(%d,%d,%d)", r1, g1[0], g1[1], g1[2], g1[3], r2, g2[0], g2[1]);
					record(key, pat, line, f, d);
				}
			}
		}
		rstr_free(rs);
		rset_free(re);
		free(heapline);
	}
}

int main(int argc, char **argv)
{
	int maxlit = atoi(argv[1]), shard = atoi(argv[2]), nshards = atoi(argv[3]);
	char lits[64][16], lines[2048][24];
	int nl = 0, nlines = 0, i, j, a, b, c, d;
	long idx = 0;
	strcpy(lits[nl++], "");
	for (i = 0; i < NA && maxlit >= 1; i++)
		strcpy(lits[nl++], alpha[i]);
	for (i = 0; i < NA && maxlit >= 2; i++)
		for (j = 0; j < NA; j++)
			sprintf(lits[nl++], "%s%s", alpha[i], alpha[j]);
	strcpy(lines[nlines++], "\n");
	for (a = 0; a < NA; a++) {
		sprintf(lines[nlines++], "%s\n", alpha[a]);
		for (b = 0; b < NA; b++) {
			sprintf(lines[nlines++], "%s%s\n", alpha[a], alpha[b]);
			for (c = 0; c < NA; c++) {
				sprintf(lines[nlines++], "%s%s%s\n", alpha[a], alpha[b], alpha[c]);
				for (d = 0; d < NA; d++)
					sprintf(lines[nlines++], "%s%s%s%s\n", alpha[a], alpha[b], alpha[c], alpha[d]);
			}
		}
	}
	for (i = 0; i < nl; i++) {
		int m;
		for (m = 0; m < 16; m++) {
			char pat[64];
			if (idx++ % nshards != shard)
				continue;
			sprintf(pat, "%s%s%s%s%s", m & 1 ? "^" : "", m & 2 ? "\\<" : "", lits[i], m & 4 ? "\\>" : "", m & 8 ? "$" : "");
			for (j = 0; j < nlines; j++)
				compare(pat, lines[j]);
		}
	}
	for (i = 0; i < ncls; i++) {
		printf("CLASS %s %ld ", classes[i].key, classes[i].cnt);
		hexout(classes[i].pat);
		printf(" ");
		hexout(classes[i].line);
		printf(" %d : %s\n", classes[i].flags, classes[i].desc);
	}
	printf("TOTAL %ld %ld %ld %ld\n", total, taken, nontriv, discarded);
	return 0;
}
