/*
 * Probe server: exposes the library layer of neatvi (uc.c ren.c dir.c conf.c rset.c rstr.c
 * regex.c lbuf.c mot.c reg.c sbuf.c) over a line protocol on stdin/stdout.
 * uc.c and rstr.c are #included so that their static tables / struct fields are reachable
 * without touching the repository.  Built with ASan+UBSan; a memory error kills the server and
 * the Python side reports the request it was processing.
 *
 * Request:  <op> <hex-arg> <hex-arg> ...\n     (strings are hex encoded, ints decimal)
 * Response: one line of space separated ints (op specific), or "ERR ..."
 */
#include <ctype.h>
#include <stdio.h>
#include <stdlib.h>
#include <string.h>
#include "vi.h"
#include "uc.c"
#undef LEN
#include "rstr.c"

int xrow, xoff, xtop, xleft, xvis, xled, xquit, xai = 1, xhl, xhll, xkmap, xkmap_alt, xru, xhist;
int xic = 1, xtd = 0, xshape = 1, xorder = 1, xlim = 256;
static struct lbuf *cur_lb;
struct lbuf *ex_lbuf(void) { return cur_lb; }
extern int re_verif_depcut;
int re_verif_ndept(void);

static char *unhex(char *h)
{
	int n = strlen(h) / 2, i;
	char *s = malloc(n + 1);		/* exact size: ASan sees overreads */
	if (h[0] == '-' ) { s[0] = 0; return s; }
	for (i = 0; i < n; i++) {
		unsigned v;
		sscanf(h + 2 * i, "%2x", &v);
		s[i] = v;
	}
	s[n] = 0;
	return s;
}

#define MAXARG 64
static char *args[MAXARG];
static int nargs;

static void split(char *ln)
{
	nargs = 0;
	char *t = strtok(ln, " \n");
	while (t && nargs < MAXARG) {
		args[nargs++] = t;
		t = strtok(NULL, " \n");
	}
}

/* op uc: all character arithmetic on one string */
static void op_uc(void)
{
	char *s = unhex(args[1]);
	int len = strlen(s), n = uc_slen(s), i, j, cn;
	char **ch;
	printf("%d", n);
	/* uc_chr for i in -1..n+1 as byte offsets (or -9 when it returns the "" literal) */
	for (i = -1; i <= n + 1; i++) {
		char *r = uc_chr(s, i);
		printf(" %d", (r >= s && r <= s + len) ? (int) (r - s) : -9);
	}
	printf(" |");
	/* per character: len, code, end, next, prev, beg(from each interior byte collapsed: min==max check) */
	ch = uc_chop(s, &cn);
	printf(" %d", cn);
	for (i = 0; i < cn; i++) {
		char *c = ch[i];
		int l = uc_len(c), ok = 1;
		for (j = 0; j < l; j++)
			if (uc_beg(s, c + j) != c)
				ok = 0;
		printf(" %d %d %d %d %d %d %d", (int) (c - s), l, uc_code(c), (int) (uc_end(c) - s),
			(int) (uc_next(c) - s), (int) (uc_prev(s, c) - s), ok);
	}
	printf(" %d", (int) (ch[cn] - s));
	free(ch);
	printf(" |");
	for (i = 0; i <= len; i++)
		printf(" %d", uc_off(s, i));
	printf(" |");
	/* uc_sub for all 0 <= b <= e <= n: print byte length and a checksum of start offset */
	for (i = 0; i <= n; i++)
		for (j = i; j <= n; j++) {
			char *sub = uc_sub(s, i, j);
			char *at = strstr(s, sub);
			printf(" %d", (int) strlen(sub));
			(void) at;
			free(sub);
		}
	{	/* uc_sub(s, b, -1): to the end */
		printf(" |");
		for (i = 0; i <= n; i++) {
			char *sub = uc_sub(s, i, -1);
			printf(" %d", (int) strlen(sub));
			free(sub);
		}
	}
	printf("\n");
	free(s);
}

/* op wid lo hi: width class bits for each code point: wid(0..2) | isbell<<2 | iscomb<<3 */
static void op_wid(void)
{
	int lo = atoi(args[1]), hi = atoi(args[2]), c;
	char buf[8];
	for (c = lo; c < hi; c++) {
		if (c >= 0xd800 && c <= 0xdfff) {
			putchar('x');
			continue;
		}
		uc_cput(buf, c);
		putchar('A' + (uc_wid(buf) | (uc_isbell(buf) ? 4 : 0) | (uc_iscomb(buf) ? 8 : 0)));
	}
	printf("\n");
}

/* op cwid lo hi: the cell width the layout uses (ren_cwid at column 0) for each scalar value, one digit each */
static void op_cwid(void)
{
	int lo = atoi(args[1]), hi = atoi(args[2]), c;
	char buf[8];
	for (c = lo; c < hi; c++) {
		if (c >= 0xd800 && c <= 0xdfff) {
			putchar('x');
			continue;
		}
		memset(buf, 0, sizeof(buf));
		uc_cput(buf, c);
		putchar('0' + ren_cwid(buf, 0));
	}
	printf("\n");
}

/* op enc lo hi: for each scalar value check uc_cput/uc_len/uc_code/uc_end/uc_next against an
 * independent encoder; prints number checked and first mismatch */
static int ref_enc(int c, unsigned char *d)
{
	if (c < 0x80) { d[0] = c; return 1; }
	if (c < 0x800) { d[0] = 0xc0 | (c >> 6); d[1] = 0x80 | (c & 0x3f); return 2; }
	if (c < 0x10000) { d[0] = 0xe0 | (c >> 12); d[1] = 0x80 | ((c >> 6) & 0x3f); d[2] = 0x80 | (c & 0x3f); return 3; }
	d[0] = 0xf0 | (c >> 18); d[1] = 0x80 | ((c >> 12) & 0x3f); d[2] = 0x80 | ((c >> 6) & 0x3f); d[3] = 0x80 | (c & 0x3f);
	return 4;
}

static void op_enc(void)
{
	int lo = atoi(args[1]), hi = atoi(args[2]), c, n = 0, bad = -1, why = 0;
	for (c = lo; c < hi; c++) {
		unsigned char *d = malloc(6);	/* exact-size heap buffer: "x" + char + NUL */
		int l;
		if (c >= 0xd800 && c <= 0xdfff) { free(d); continue; }
		d[0] = 'x';
		l = ref_enc(c, d + 1);
		d[1 + l] = 0;
		n++;
		if (uc_len((char *) d + 1) != l) why = 1;
		else if (uc_code((char *) d + 1) != c) why = 2;
		else if (uc_end((char *) d + 1) != (char *) d + l) why = 3;
		else if (uc_next((char *) d + 1) != (char *) d + 1 + l) why = 4;
		else if (uc_slen((char *) d) != 2) why = 5;
		else if (uc_prev((char *) d, (char *) d + 1 + l) != (char *) d + 1) why = 6;
		else if (uc_beg((char *) d, (char *) d + l) != (char *) d + 1) why = 7;
		else if (uc_off((char *) d, 1 + l) != 2) why = 8;
		else if (uc_chr((char *) d, 1) != (char *) d + 1) why = 9;
		else if (uc_chr((char *) d, 2) != (char *) d + 1 + l) why = 10;
		else {
			char out[8];
			uc_cput(out, c);
			if (memcmp(out, d + 1, l + 1)) why = 11;
		}
		free(d);
		if (why && bad < 0) { bad = c; break; }
	}
	printf("%d %d %d\n", n, bad, why);
}

/* op ren S order td lim: layout of one line */
static void op_ren(void)
{
	char *s = unhex(args[1]);
	int n, i, *pos, w;
	xorder = atoi(args[2]);
	xtd = atoi(args[3]);
	xlim = atoi(args[4]);
	n = uc_slen(s);
	pos = ren_position(s);
	printf("%d", n);
	for (i = 0; i <= n; i++)
		printf(" %d", pos[i]);
	w = pos[n];
	free(pos);
	printf(" | %d |", ren_wid(s));
	for (i = 0; i <= n + 1; i++)
		printf(" %d %d", ren_pos(s, i), ren_noeol(s, i));
	printf(" |");
	for (i = 0; i <= w + 2; i++)
		printf(" %d %d %d %d", ren_off(s, i), ren_cursor(s, i), ren_next(s, i, +1), ren_next(s, i, -1));
	printf(" |");
	{	/* per character cell width as used for the tiling */
		char **ch = uc_chop(s, &n);
		int *p2 = ren_position(s);
		for (i = 0; i < n; i++)
			printf(" %d", ren_cwid(ch[i], p2[i]));
		free(ch);
		free(p2);
	}
	printf("\n");
	free(s);
}

/* op dir S td order lim: reorder permutation; ord[] is identity-initialised like the caller does */
static void op_dir(void)
{
	char *s = unhex(args[1]);
	int n, i, *ord;
	xtd = atoi(args[2]);
	xorder = atoi(args[3]);
	n = uc_slen(s);
	ord = malloc((n + 1) * sizeof(ord[0]));
	for (i = 0; i < n; i++)
		ord[i] = i;
	dir_reorder(s, ord);
	printf("%d %d", dir_context(s), n);
	for (i = 0; i < n; i++)
		printf(" %d", ord[i]);
	printf("\n");
	free(ord);
	free(s);
}

/* op shape S shape: per character: code point of uc_shape() or -1 for NULL; and ren_translate's first cp */
static void op_shape(void)
{
	char *s = unhex(args[1]);
	int n, i;
	char **ch;
	xshape = atoi(args[2]);
	ch = uc_chop(s, &n);
	printf("%d", n);
	for (i = 0; i < n; i++) {
		char *r = uc_shape(s, ch[i]);
		char *t = ren_translate(ch[i], s);
		printf(" %d %d", r ? uc_code(r) : -1, t ? uc_code(t) : -1);
	}
	printf("\n");
	free(ch);
	free(s);
}

/* op cshape cur prev next: the static joining function */
static void op_cshape(void)
{
	printf("%d\n", uc_cshape(atoi(args[1]), atoi(args[2]), atoi(args[3])));
}

/* op re flags gflags ngrps line n pat...: rset_make + rset_find
 * output: made idx depcut g0s g0e g1s g1e ... (ngrps pairs, poisoned with -7 before the call) */
static void op_re(void)
{
	int flags = atoi(args[1]), gflags = atoi(args[2]), ng = atoi(args[3]);
	char *line = unhex(args[4]);
	int n = atoi(args[5]), i, idx = -2, cut0;
	char **pats = malloc((n + 1) * sizeof(pats[0]));
	int *grps = malloc((ng * 2 + 1) * sizeof(int));
	struct rset *rs;
	for (i = 0; i < n; i++)
		pats[i] = strcmp(args[6 + i], "NULL") ? unhex(args[6 + i]) : NULL;
	for (i = 0; i < ng * 2; i++)
		grps[i] = -7;
	cut0 = re_verif_depcut;
	rs = rset_make(n, pats, flags);
	if (rs) {
		idx = rset_find(rs, line, ng, grps, gflags);
		rset_free(rs);
	}
	printf("%d %d %d", rs != NULL, idx, re_verif_depcut - cut0);
	for (i = 0; i < ng * 2; i++)
		printf(" %d", grps[i]);
	printf("\n");
	for (i = 0; i < n; i++)
		free(pats[i]);
	free(pats);
	free(grps);
	free(line);
}

/* op rs flags gflags ngrps line pat: rstr_make + rstr_find
 * output: made is_literal ret depcut grps... */
static void op_rs(void)
{
	int flags = atoi(args[1]), gflags = atoi(args[2]), ng = atoi(args[3]);
	char *line = unhex(args[4]);
	char *pat = unhex(args[5]);
	int *grps = malloc((ng * 2 + 1) * sizeof(int));
	int i, ret = -2, lit = 0, cut0 = re_verif_depcut;
	struct rstr *rs;
	for (i = 0; i < ng * 2; i++)
		grps[i] = -7;
	rs = rstr_make(pat, flags);
	if (rs) {
		lit = rs->str != NULL && rs->rs == NULL;
		ret = rstr_find(rs, line, ng, grps, gflags);
		rstr_free(rs);
	}
	printf("%d %d %d %d", rs != NULL, lit, ret, re_verif_depcut - cut0);
	for (i = 0; i < ng * 2; i++)
		printf(" %d", grps[i]);
	printf("\n");
	free(grps);
	free(line);
	free(pat);
}

/* op c11 mflags pat nlines line...: compile pat both ways, match every line under the 4 NOTBOL/NOTEOL
 * combinations and validate the returned offsets here.  output: made_rset made_rstr nfound nbad firstbad-code */
static int c11_check(char *line, int found, int *g, int ng)
{
	int len = strlen(line), i;
	if (!found)
		return 0;
	for (i = 0; i < ng; i++) {
		int so = g[2 * i], eo = g[2 * i + 1];
		if (so == -1 && eo == -1 && i > 0)
			continue;
		if (so < 0 || eo < so || eo > len)
			return 10 + (i > 9 ? 9 : i);
		if ((((unsigned char) line[so]) & 0xc0) == 0x80 || (((unsigned char) line[eo]) & 0xc0) == 0x80)
			return 30 + (i > 9 ? 9 : i);
	}
	return 0;
}

static void op_c11(void)
{
	int mflags = atoi(args[1]);
	char *pat = unhex(args[2]);
	int nl = atoi(args[3]), i, f, nfound = 0, nbad = 0, first = 0;
	char *pp = pat;
	struct rset *re = rset_make(1, &pp, mflags);
	struct rstr *rs = rstr_make(pat, mflags);
	for (i = 0; i < nl; i++) {
		char *line = unhex(args[4 + i]);
		for (f = 0; f < 4; f++) {
			int g[24], j, r, gfl = (f & 1 ? RE_NOTBOL : 0) | (f & 2 ? RE_NOTEOL : 0);
			if (re) {
				for (j = 0; j < 24; j++)
					g[j] = -7;
				r = rset_find(re, line, 12, g, gfl);
				nfound += r >= 0;
				j = c11_check(line, r >= 0, g, 12);
				if (j && !first)
					first = 100 + j;
				nbad += j != 0;
			}
			if (rs) {
				for (j = 0; j < 24; j++)
					g[j] = -7;
				r = rstr_find(rs, line, 12, g, gfl);
				nfound += r >= 0;
				j = c11_check(line, r >= 0, g, 12);
				if (j && !first)
					first = 200 + j;
				nbad += j != 0;
			}
		}
		free(line);
	}
	printf("%d %d %d %d %d\n", re != NULL, rs != NULL, nfound, nbad, first);
	if (re)
		rset_free(re);
	if (rs)
		rstr_free(rs);
	free(pat);
}

/* op rr S: re_read() on an exactly sized heap copy of S (delimiter first): prints found consumed-bytes result-length;
 * a scanner that steps over the terminator is a heap overflow here */
static void op_rr(void)
{
	char *src = unhex(args[1]);
	int n = strlen(src);
	char *buf = malloc(n + 1);
	char *s = buf, *r;
	memcpy(buf, src, n + 1);
	r = re_read(&s);
	printf("%d %d %d\n", r != NULL, (int) (s - buf), r ? (int) strlen(r) : -1);
	free(r);
	free(buf);
	free(src);
}

static void op_ndept(void)
{
	printf("%d\n", re_verif_ndept());
}

int main(void)
{
	static char ln[1 << 20];
	setvbuf(stdout, NULL, _IOFBF, 1 << 16);
	dir_init();
	while (fgets(ln, sizeof(ln), stdin)) {
		split(ln);
		if (!nargs)
			continue;
		if (!strcmp(args[0], "uc")) op_uc();
		else if (!strcmp(args[0], "wid")) op_wid();
		else if (!strcmp(args[0], "cwid")) op_cwid();
		else if (!strcmp(args[0], "enc")) op_enc();
		else if (!strcmp(args[0], "ren")) op_ren();
		else if (!strcmp(args[0], "dir")) op_dir();
		else if (!strcmp(args[0], "shape")) op_shape();
		else if (!strcmp(args[0], "cshape")) op_cshape();
		else if (!strcmp(args[0], "re")) op_re();
		else if (!strcmp(args[0], "rs")) op_rs();
		else if (!strcmp(args[0], "ndept")) op_ndept();
		else if (!strcmp(args[0], "rr")) op_rr();
		else if (!strcmp(args[0], "c11")) op_c11();
		else if (!strcmp(args[0], "quit")) break;
		else printf("ERR unknown op\n");
		fflush(stdout);
	}
	return 0;
}
