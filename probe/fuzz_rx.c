/*
 * libFuzzer target for C11 (and the C12 differential): bytes -> (flags, 1..4 patterns, line)
 * -> rset_make/rset_find and rstr_make/rstr_find, with the semantic oracle inside the target:
 * returned offsets must satisfy 0 <= so <= eo <= strlen(line), fall on character boundaries of
 * the valid UTF-8 line, unset groups are exactly (-1,-1); when rstr takes the literal path its
 * answer must equal the general engine's.  ASan/UBSan catch the memory errors.
 */
#include <stdint.h>
#include <stdio.h>
#include <stdlib.h>
#include <string.h>
#include "vi.h"
#include "rstr.c"

int xrow, xoff, xtop, xleft, xic = 1, xtd, xshape = 1, xorder = 1, xlim = 256;
struct lbuf *ex_lbuf(void) { return NULL; }
extern int re_verif_depcut;

static void fail(const char *why, char **pats, int np, char *line, int flags)
{
	int i;
	fprintf(stderr, "C11-ORACLE-FAIL: %s flags=%d line=", why, flags);
	for (i = 0; line[i]; i++)
		fprintf(stderr, "%02x", (unsigned char) line[i]);
	for (i = 0; i < np; i++) {
		int j;
		fprintf(stderr, " pat%d=", i);
		for (j = 0; pats[i][j]; j++)
			fprintf(stderr, "%02x", (unsigned char) pats[i][j]);
	}
	fprintf(stderr, "\n");
	fflush(stderr);
	__builtin_trap();
}

/* keep only valid UTF-8 sequences (strict enough: lead/continuation structure, no NUL, no newline) */
static int sanitize_utf8(const uint8_t *d, int n, char *out, int max)
{
	int i = 0, o = 0;
	while (i < n && o + 5 < max) {
		int c = d[i], l = 0, k, ok = 1;
		if (c == 0 || c == '\n') { i++; continue; }
		if (c < 0x80) l = 1;
		else if (c >= 0xc2 && c <= 0xdf) l = 2;
		else if (c >= 0xe0 && c <= 0xef) l = 3;
		else if (c >= 0xf0 && c <= 0xf4) l = 4;
		else { i++; continue; }
		if (i + l > n) break;
		for (k = 1; k < l; k++)
			if ((d[i + k] & 0xc0) != 0x80) ok = 0;
		if (ok && l == 3 && c == 0xe0 && d[i + 1] < 0xa0) ok = 0;
		if (ok && l == 3 && c == 0xed && d[i + 1] >= 0xa0) ok = 0;
		if (ok && l == 4 && c == 0xf0 && d[i + 1] < 0x90) ok = 0;
		if (ok && l == 4 && c == 0xf4 && d[i + 1] >= 0x90) ok = 0;
		if (!ok) { i++; continue; }
		memcpy(out + o, d + i, l);
		o += l;
		i += l;
	}
	out[o] = 0;
	return o;
}

/* conservative guard against exponential (but terminating) backtracking; see DESIGN.md C11 */
static int risky(char *p)
{
	int q = 0, i, n = strlen(p);
	for (i = 0; i < n; i++)
		if (p[i] == '*' || p[i] == '+' || p[i] == '{')
			q++;
	if (q > 4)
		return 1;
	for (i = 0; i + 1 < n; i++) {
		if (!strchr("*+{?", p[i + 1]))
			continue;
		if (strchr("^$<>", p[i]) && q > 1)
			return 1;
		if (p[i] == ')') {
			int dep = 0, j;
			for (j = i; j >= 0; j--) {
				if (p[j] == ')') dep++;
				if (p[j] == '(' && --dep == 0) break;
			}
			if (j < 0)
				return 1;
			for (j = j + 1; j < i; j++)
				if (strchr("|?*+{^$()\\", p[j]))
					return 1;
		}
	}
	return 0;
}

static void check_offsets(char *line, int *g, int ng, char **pats, int np, int flags, const char *who)
{
	int len = strlen(line), i;
	for (i = 0; i < ng; i++) {
		int so = g[2 * i], eo = g[2 * i + 1];
		if (i > 0 && so == -1 && eo == -1)
			continue;
		if (so < 0 || eo < so || eo > len)
			fail(who, pats, np, line, flags);
		if ((((unsigned char) line[so]) & 0xc0) == 0x80 || (((unsigned char) line[eo]) & 0xc0) == 0x80)
			fail("offset inside a multi-byte character", pats, np, line, flags);
	}
}

int LLVMFuzzerTestOneInput(const uint8_t *data, size_t size)
{
	char *pats[4];
	char patbuf[4][32];
	char linebuf[64], *line;
	int np, flags, mflags, gflags, i, nparts = 0, g[24], r;
	const uint8_t *part[8];
	int plen[8];
	struct rset *re;
	if (size < 2)
		return 0;
	flags = data[0];
	mflags = flags & 1 ? RE_ICASE : 0;
	gflags = (flags & 2 ? RE_NOTBOL : 0) | (flags & 4 ? RE_NOTEOL : 0);
	data++, size--;
	part[0] = data;
	for (i = 0; i < (int) size && nparts < 5; i++)
		if (data[i] == '\n') {
			plen[nparts] = data + i - part[nparts];
			nparts++;
			part[nparts] = data + i + 1;
		}
	plen[nparts] = data + size - part[nparts];
	nparts++;
	np = nparts - 1;
	if (np < 1 || np > 4)
		return 0;
	for (i = 0; i < np; i++) {
		int l = plen[i] > 24 ? 24 : plen[i], j;
		for (j = 0; j < l; j++)
			patbuf[i][j] = part[i][j] ? part[i][j] : 'a';
		patbuf[i][l] = 0;
		pats[i] = patbuf[i];
		if (risky(pats[i]))
			return 0;
	}
	i = sanitize_utf8(part[np], plen[np] > 32 ? 32 : plen[np], linebuf, 40);
	linebuf[i] = '\n';
	linebuf[i + 1] = 0;
	line = malloc(i + 2);		/* exact-size heap copy */
	memcpy(line, linebuf, i + 2);
	re = rset_make(np, pats, mflags);
	if (re) {
		for (i = 0; i < 24; i++)
			g[i] = -7;
		r = rset_find(re, line, 12, g, gflags);
		if (r >= np)
			fail("set index out of range", pats, np, line, flags);
		if (r >= 0)
			check_offsets(line, g, 12, pats, np, flags, "rset_find offsets out of order or out of the line");
		rset_free(re);
	}
	{
		struct rstr *rs = rstr_make(pats[0], mflags);
		if (rs) {
			int g2[24], r2, cut0 = re_verif_depcut;
			for (i = 0; i < 24; i++)
				g2[i] = -7;
			r2 = rstr_find(rs, line, 12, g2, gflags);
			if (r2 >= 0)
				check_offsets(line, g2, 12, pats, 1, flags, "rstr_find offsets out of order or out of the line");
			char tmp[40];
			int valid = sanitize_utf8((const uint8_t *) pats[0], strlen(pats[0]), tmp, 40) == (int) strlen(pats[0]);
			/* differential only for valid UTF-8 patterns: the engine decodes overlong/invalid sequences in a
			 * pattern (0xc1 0x61 == 'a') while the fast path compares bytes; such patterns cannot be typed */
			if (rs->str && valid) {		/* literal path: differential against the general engine */
				char *p0 = pats[0];
				struct rset *r1 = rset_make(1, &p0, mflags);
				if (r1) {
					int g1[24], rr;
					for (i = 0; i < 24; i++)
						g1[i] = -7;
					rr = rset_find(r1, line, 12, g1, gflags);
					if (re_verif_depcut == cut0) {
						if ((rr >= 0) != (r2 >= 0))
							fail("fast path and engine disagree on found/not-found", pats, 1, line, flags);
						if (rr >= 0 && (g1[0] != g2[0] || g1[1] != g2[1]))
							fail("fast path and engine disagree on offsets", pats, 1, line, flags);
					}
					rset_free(r1);
				}
			}
			rstr_free(rs);
		}
	}
	free(line);
	return 0;
}
