/*
 * The regex engine keeps a private copy of the UTF-8 decoders (regex.c uc_len / uc_dec / uc_beg).  This program includes
 * regex.c (public names renamed) and checks those statics for EVERY scalar value against an independent encoder:
 *   usage: prx   -> prints "<checked> <first bad code point or -1> <reason>"
 * reasons: 1 uc_len, 2 uc_dec, 3 uc_beg from an interior byte, 4 uc_len of a truncated sequence runs past the terminator
 */
#define regcomp prx_regcomp
#define regexec prx_regexec
#define regfree prx_regfree
#define regerror prx_regerror
#define re_verif_depcut prx_depcut
#define re_verif_ndept prx_ndept
#include "regex.c"
#include <stdio.h>

static int ref_enc(int c, unsigned char *d)
{
	if (c < 0x80) { d[0] = c; return 1; }
	if (c < 0x800) { d[0] = 0xc0 | (c >> 6); d[1] = 0x80 | (c & 0x3f); return 2; }
	if (c < 0x10000) { d[0] = 0xe0 | (c >> 12); d[1] = 0x80 | ((c >> 6) & 0x3f); d[2] = 0x80 | (c & 0x3f); return 3; }
	d[0] = 0xf0 | (c >> 18); d[1] = 0x80 | ((c >> 12) & 0x3f); d[2] = 0x80 | ((c >> 6) & 0x3f); d[3] = 0x80 | (c & 0x3f);
	return 4;
}

int main(void)
{
	int c, n = 0, bad = -1, why = 0, i;
	for (c = 1; c < 0x110000 && bad < 0; c++) {
		unsigned char buf[16];
		int l;
		if (c >= 0xd800 && c <= 0xdfff)
			continue;
		memset(buf, 0, sizeof(buf));
		buf[0] = 'x';
		l = ref_enc(c, buf + 1);
		buf[1 + l] = 'y';
		n++;
		if (uc_len((char *) buf + 1) != l)
			bad = c, why = 1;
		else if (uc_dec((char *) buf + 1) != c)
			bad = c, why = 2;
		for (i = 0; i < l && bad < 0; i++)
			if (uc_beg((char *) buf, (char *) buf + 1 + i) != (char *) buf + 1)
				bad = c, why = 3;
		/* a sequence cut short by the terminator: the length must not run past it */
		for (i = 1; i < l && bad < 0; i++) {
			unsigned char t[8];
			memset(t, 0, sizeof(t));
			memcpy(t, buf + 1, i);
			if (uc_len((char *) t) > i)
				bad = c, why = 4;
		}
	}
	printf("%d %d %d\n", n, bad, why);
	return 0;
}
