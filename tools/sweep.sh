#!/bin/sh
# usage: tools/sweep.sh "<seeds>" [tier] [ids...]   - runs the registered checks for several seeds; prints one line per run
SEEDS=${1:-"1 2 3"}; TIER=${2:-quick}; shift 2 2>/dev/null
IDS=${*:-$(python3 -c "import json;print(' '.join(c['property_id'] for c in json.load(open('/verif/MANIFEST.json'))['checks']))")}
OUT=$(mktemp -d "${TMPDIR:-/tmp}/nvsweep.XXXXXX")
for s in $SEEDS; do for id in $IDS; do
  VERIF_SEED=$s VERIF_EVIDENCE_OUT=$OUT/ev VERIF_REPLAY_OUT=$OUT/rp ./check $id --tier $TIER > $OUT/log.$id.$s 2>&1
  echo "seed=$s rc=$? $(grep -E "^C[0-9]+ tier" $OUT/log.$id.$s | tail -1) $(grep -c '^VIOLATION' $OUT/log.$id.$s) violation-lines $(grep -c HARNESS $OUT/log.$id.$s) harness-errors"
done; done
echo "replays kept in $OUT/rp"; ls $OUT/rp 2>/dev/null
