#!/bin/sh
# usage: tools/seedmatrix.sh "<seeds>" [name-glob]  - re-runs, for every stored seeded change, the quick tier of the check that is
# recorded as detecting it, with other VERIF_SEED values; prints one line per (change, seed): caught / MISSED
SEEDS=${1:-"1 2"}; GLOB=${2:-"*"}
for d in /verif/seeded/$GLOB/; do
  n=$(basename $d)
  id=$(python3 -c "import json,re;m=json.load(open('$d/meta.json'));print(re.search(r'C\d\d', m.get('detected_by', m['property'])).group(0))")
  W=$(mktemp -d /tmp/nvmx.XXXXXX)
  git -C /repo archive HEAD | tar -x -C $W
  ( cd $W && patch -p1 -s < $d/patch.diff ) || { echo "$n: patch does not apply"; rm -rf $W; continue; }
  for s in $SEEDS; do
    mkdir -p $W/ev $W/rp
    VERIF_SEED=$s VERIF_REPO=$W VERIF_EVIDENCE_OUT=$W/ev VERIF_REPLAY_OUT=$W/rp timeout 1500 /verif/check $id --tier quick > $W/log 2>&1
    rc=$?
    if [ $rc = 1 ] && grep -q '^VIOLATION' $W/log; then echo "$n seed=$s $id caught"; else echo "$n seed=$s $id MISSED rc=$rc"; fi
  done
  rm -rf $W
done
