#!/bin/sh
# usage: tools/seedcheck.sh <PROP-ID> <dir-with-SEED> <name> [extra check ids...]
# Confirms a seeded change independently (applies to a clean copy of /repo HEAD, builds, runs test.sh, runs the demo with and
# without the change), then runs the property's quick check against the changed copy, and files everything under /verif/seeded/<name>/.
ID=$1; SRC=$2; NAME=$3; shift 3; EXTRA="$*"
S=$SRC/SEED
[ -f "$S/patch.diff" ] || { echo "no patch.diff in $S"; exit 2; }
W=$(mktemp -d /tmp/nvseed.XXXXXX)
trap 'rm -rf "$W"' EXIT
mkdir $W/orig $W/mut
git -C /repo archive HEAD | tar -x -C $W/orig
git -C /repo archive HEAD | tar -x -C $W/mut
( cd $W/mut && patch -p1 -s < "$S/patch.diff" ) || { echo "SEED: patch does not apply to /repo HEAD"; exit 3; }
( cd $W/orig && make -s >/dev/null 2>&1 ) || { echo "orig build failed"; exit 3; }
( cd $W/mut && make -s >/dev/null 2>&1 ) || { echo "SEED: does not build"; exit 3; }
OKS=$(cd $W/mut && timeout 300 sh test.sh 2>/dev/null | grep -c OK)
echo "SEED: test.sh with the change: $OKS x OK"
cp -r "$S" $W/demo
DEMO_ARG_O=$W/orig/vi; DEMO_ARG_M=$W/mut/vi
if grep -q "source dir" "$S/notes.md" 2>/dev/null && grep -q 'SRC\|srcdir\|\$1/regex' "$S/demo.sh" 2>/dev/null; then DEMO_ARG_O=$W/orig; DEMO_ARG_M=$W/mut; fi
( cd $W/demo && timeout 120 sh ./demo.sh $DEMO_ARG_O >/dev/null 2>&1 ); RO=$?
( cd $W/demo && timeout 120 sh ./demo.sh $DEMO_ARG_M >/dev/null 2>&1 ); RM=$?
echo "SEED: demo exit without change=$RO with change=$RM"
mkdir -p $W/ev $W/rp
RES=""
for id in $ID $EXTRA; do
  VERIF_REPO=$W/mut VERIF_EVIDENCE_OUT=$W/ev VERIF_REPLAY_OUT=$W/rp timeout 1500 /verif/check $id --tier quick > $W/log.$id 2>&1
  rc=$?
  nv=$(grep -c '^VIOLATION' $W/log.$id)
  echo "SEED: check $id on the changed tree: exit=$rc violations=$nv  $(grep -E '^C[0-9]+ tier' $W/log.$id | tail -1)"
  RES="$RES $id:exit$rc:viol$nv"
done
D=/verif/seeded/$NAME
mkdir -p $D
cp "$S/patch.diff" $D/patch.diff
cp -r "$S"/* $D/ 2>/dev/null
ls $W/rp | head -3 > $D/replays_found.txt
for f in $(ls $W/rp | head -2); do cp $W/rp/$f $D/; done
cat > $D/meta.json <<EOM
{"property": "$ID", "name": "$NAME", "suite_ok_with_change": $OKS, "demo_exit_without_change": $RO, "demo_exit_with_change": $RM,
 "checks_run": "$RES", "confirmed_by": "tools/seedcheck.sh: patch applied to a clean export of /repo HEAD, make, sh test.sh, demo.sh on both builds, ./check on the changed copy (VERIF_REPO)"}
EOM
echo "SEED: filed under $D"
