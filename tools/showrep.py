#!/usr/bin/env python3
import json,sys
for p in sys.argv[1:]:
    d=json.load(open(p)); c=d['case']; det=d['detail']
    print('==',p)
    for k,v in c.items():
        print('  ',k,'=',repr(v)[:600])
    if isinstance(det,dict):
        for k,v in det.items():
            print('  >',k,'=',repr(v)[:900])
    else: print('  >',det)
