#!/bin/sh
# Offline setup: nothing to fetch or pre-build.  Every check builds what it needs from /repo's
# working tree into a private scratch directory.  Here we only verify the tool chain.
set -e
command -v python3-vt >/dev/null
command -v clang >/dev/null
command -v cc >/dev/null
python3-vt -c "import hypothesis, jsonschema; print('hypothesis', hypothesis.__version__)"
chmod +x /verif/check /verif/tools/*.sh 2>/dev/null || true
echo "setup ok"
