#!/usr/bin/env python3
"""Regenerate /verif/MANIFEST.json from the table below (kept valid at all times)."""
import json
import os
import subprocess

V = os.path.dirname(os.path.dirname(os.path.abspath(__file__)))

CHECKS = {
    # id: (category, technique, level text, level note, design_ref)
    "C01": ("exploration", "property-based round-trip / model check (Hypothesis, constructed boundary sizes)",
            "Random search with sizes constructed at the 1 KiB read chunk, 4 KiB write batch and 512/1024/2048 "
            "line-table growth points; oracle = byte equality with the original (round trip) and with the "
            "concatenation model for ranges, exact length (truncation).",
            "Trusts the pipe-driven 'vi -s -e' to behave like typed ex commands; sampled, not exhaustive.", "3/C01"),
    "C05": ("exploration", "grammar-based fuzzing of ex/vi command streams under ASan/UBSan (Hypothesis, sharded)",
            "Grammar-generated ex scripts and vi key streams (full command tables, hostile addresses/patterns, 512-byte "
            "limit, options, window sizes from 2x2) over valid UTF-8 buffers run against an ASan+UBSan build; oracle = "
            "clean exit, no sanitizer report, quit trailer reached within a 10 s (re-run 60 s) CPU limit.",
            "Sampled, not exhaustive; only the listed sanitizer classes count; streams without a reachable quit and "
            "self-executing registers are outside the domain.", "3/C05"),
    "C16": ("exploration", "exhaustive enumeration (all scalar values; all short strings) + property-based strings and editing programs",
            "Exhaustive over every Unicode scalar value and over all strings of <=4/5 characters from a 7-character alphabet of "
            "1-4 byte characters against an independent segmentation; random strings to 200 characters; random character-wise "
            "vi/ex editing programs over multi-byte text whose output must stay valid UTF-8 (ASan build).",
            "Exhaustive only for the enumerated sub-spaces (flagged in evidence); the reference segmentation in models/utf8.py "
            "is trusted.", "3/C16"),
    "C04": ("exploration", "exhaustive small-scope enumeration of line-buffer operation sequences against a snapshot model + "
                           "stateful property-based ex/vi histories with a model-free history invariant and an observer-free twin run",
            "All operation sequences up to depth 4/5 over a 31-operation alphabet (and depth 7/8 over 8 operations) at the lbuf "
            "interface compared with a stack-of-snapshots model after every operation (text, undo/redo return values at the ends, "
            "modified flag); random ex and vi histories where every text observed after undo/redo must equal the text observed "
            "before the corresponding change, and the same history without observers must end in the same text.",
            "Exhaustive only up to the stated depths/alphabet; editor-level part is sampled; a no-op edit may or may not log a "
            "step (both accepted).", "3/C04"),
    "C10": ("exploration", "exhaustive small-scope enumeration + grammar-based property testing against a reference ERE matcher "
                           "(set semantics and backtracking-priority semantics)",
            "Every compilable token string of <=4/5 tokens over {a b . * | ( ) ^ $ [ab]} x every line of <=4 characters over {a,b}, and "
            "Hypothesis-generated pattern sets printed from grammar ASTs x biased lines x flags, checked through rset_make/rset_find "
            "(ASan probe): reported span is a real match (set semantics), no earlier start has one, span/index/groups equal the "
            "leftmost greedy left-biased parse, no match is missed unless the depth-limit hook counter moved; a witness family keeps "
            "the documented depth limit honest.",
            "The reference matcher (models/rx.py) is trusted; priority and completeness clauses are skipped when the engine's "
            "depth limit was hit (counted); sets are kept below 30 groups.", "3/C10"),
    "C12": ("exploration", "exhaustive differential (fast path vs general engine) in C + property-based differential and classifier check",
            "rstr_find (literal path) against rset_find on the same pattern for every anchor/word-boundary combination with literals "
            "of <=1/2 characters over a 6-character alphabet x all lines of <=4 characters x 8 flag combinations (ASan), random longer "
            "multi-byte cases, and a classifier check that only operator-free patterns take the fast path.",
            "Differential: the general engine is the reference (itself checked by C10); lines are newline terminated.", "3/C12"),
    "C11": ("exploration", "exhaustive enumeration of short metacharacter strings + property-based byte strings + coverage-guided libFuzzer "
                           "with the offset oracle inside the target (ASan/UBSan)",
            "All strings of <=4/5 characters over a 19-character metacharacter alphabet compiled by both entry points and matched against "
            "a line family under all flag combinations with offsets validated in the probe; random byte strings to 300 bytes with "
            "malformed constructs; libFuzzer campaign on fuzz_rx.c (crash-/leak- artifacts are violations).",
            "Astronomically ambiguous patterns (F22) are excluded by an independent analysis and counted; libFuzzer campaigns are only "
            "approximately reproducible (the saved artifact is the reproducible unit).", "3/C11"),
    "C14": ("exploration", "property-based testing of :s against a reference scanner built on the reference ERE matcher",
            "Generated (buffer, range, grammar pattern incl. empty-matching and multi-group ones, replacement with \\0-\\9 and escapes, "
            "g, ic, pattern reuse, bare :s) executed by the real binary; the written file must equal the reference scan of each "
            "original line in whole-line context; UTF-8 validity of the result.",
            "Reference matcher/scanner trusted; depth-limit runs discarded via the hook counter; F10 (word boundaries judged "
            "against the resumed suffix) is a known finding recognised by a second, suffix-context prediction.", "3/C14"),
    "C13": ("exploration", "property-based testing of vi searches against a whole-line reference built on the reference ERE matcher",
            "Generated (buffer, cursor, sequences of / ? n N ^A with counts, ic) run through vi -v; the cursor (observed by a marker "
            "character) must be where the whole-line reference says: first match beginning after the cursor character, last of the "
            "successive matches before it, no wrap, count = repetition, failure leaves the cursor.",
            "Reference matcher trusted; F10 (word boundaries judged against the resumed suffix) is a known finding recognised by a "
            "second, suffix-context prediction; depth-limit runs discarded.", "3/C13"),
    "C15": ("exploration", "property-based testing of :g/:v against a specification-style global over line identities (reference line editor)",
            "Generated (buffer, range, pattern, negation, command lists with d, s, pu, a/i/c + text, relative addresses, | lists, nested "
            "g) run by the real binary; text after the global must equal the reference (each pending line of the range visited once in "
            "increasing order, inserted lines never), one u must restore the text before the global and a second u the command before it.",
            "Reference line editor (models/lined.py) trusted, with documented calibrations (a line changed in place keeps its identity); "
            "F23 is a known finding recognised by a resume-by-index variant of the reference.", "3/C15"),
    "C06": ("exploration", "model-based property testing of ex scripts against a reference line editor (lock-step after every command)",
            "Generated scripts of 1-25 line commands with the full address grammar, marks, registers, filters, register execution and "
            "| lists run by the real binary; after every command the buffer (written to a file), the command's stdout and the current "
            "line are compared with models/lined.py; mark identity is asserted independently of the calibrated mark rules.",
            "Reference line editor trusted with its documented calibrations; sampled.", "3/C06"),
    "C17": ("exploration", "exhaustive enumeration of all code points + property-based testing of the layout functions against a tiling predicate",
            "uc_wid/uc_isbell/uc_iscomb for every code point against a linear scan of the same tables; generated lines (tabs, wide, "
            "zero-width, placeholder, RTL characters) x order/td/lim options through ren_position, ren_pos, ren_off, ren_next, ren_cursor, "
            "ren_noeol, ren_wid in the ASan probe: gap-free tiling in visual order, logical order for plain lines, offset/column round trip, "
            "neighbour moves stopping at the line ends.",
            "Width and placeholder tables are configuration read from the tree under test; which visual order is chosen is C18's "
            "subject, the tiling predicate is independent of it.", "3/C17"),
    "C18": ("exploration", "exhaustive enumeration of joining contexts + property-based testing of reordering against a run-reversal reference",
            "Every letter of the joining set in every neighbour context (with and without diacritics) through uc_shape against joining data "
            "derived from the Unicode character database; generated mixed-direction lines x td x order through dir_reorder: always a "
            "permutation with the terminator last, base direction per README, identity for plain lines, exactly the reversed runs for lines "
            "without mark characters.",
            "Lines containing the configured mark patterns are checked for the permutation property only; direction classes are read "
            "from conf.h of the tree under test.", "3/C18"),
    "C02": ("exploration", "stateful property-based testing of multi-buffer ex histories with an observation-driven history invariant",
            "Generated histories over up to 8 files (modifying commands, undo/redo, whole/partial/foreign writes, :e!, :e, :b switches) with "
            "the buffer list ('*' flags) and the current text observed after every step and a final :q with a sentinel: a buffer whose "
            "observed text differs from the tracked file content must be flagged and must block :e/:b/:q without '!'; at the saved point it "
            "must be clean and switching/quitting allowed; no buffer's text may change while it is not current.",
            "The text is observed, not predicted; a buffer equal to its file only by coincidence may be reported either way; the "
            "line-buffer half of the dirty flag is covered exhaustively by C04's probe (modified flag after every operation).", "3/C02"),
    "C20": ("exploration", "stateful model-based testing of buffer switching against a multi-buffer reference (MRU table, ids, aliases)",
            "Generated histories over 2-16 files of :e/:e!/:e #/:b n,+,-,%,#,^/:b !/:b ~, edits, line moves, :u, :w and a final :q; after "
            "every step the :b listing (ids, aliases, paths, '*'), the text and the current line of the buffer reached are compared with "
            "the model, so that a switch that disturbs another buffer's text, position, undo state or dirty flag shows up when that buffer is "
            "visited again.",
            "Per-buffer text/current line from models/lined.py; deleting the last buffer and a 17th file are not generated.", "3/C20"),
    "C03": ("fault_enumeration", "fault enumeration with an LD_PRELOAD interposer (every call position x fault kind) + enumerated guard matrix + "
                                 "property-based multi-fault plans",
            "Every position of the open/write/close sequence of a write (from a counting run) x {errno returns, short counts} x 8 buffer "
            "shapes spanning zero, one and many 4 KiB batches x {w, wq, xa}; the full matrix of target identity/existence/mtime/!/command/"
            "dirty; random plans of 2-4 faults.  Oracle: a reached error is reported, the buffer stays dirty (:q refused), a fault-free retry "
            "succeeds and then the file holds exactly the text; short counts alone end in success with the exact text; refused targets keep "
            "bytes and mtime.",
            "Faults are injected at the libc boundary of the plain build; ftruncate failures and zero-length writes are outside the "
            "statement; single faults are exhaustive for the listed shapes, longer plans sampled.", "3/C03"),
    "C09": ("exploration", "metamorphic property-based testing: repeat/macro run against the retyped run (two executions of the real binary)",
            "Generated (prefix, change command with count/register prefix incl. multi-byte inserts and prompting filters, motion, repeat count, "
            "suffix): P c M N. S must equal P c M c^N S, N@r (and @@) must equal the register body typed N times; compared on the written file, "
            "the cursor marker and a dump of registers a b r \" 1 2.",
            "No model: both sides are the real editor; F12 (a . or @ inside a macro followed by more keys) is documented and not generated.", "3/C09"),
    "C19": ("exploration", "differential property-based testing through a VT100 emulator: incremental drawing vs full repaint vs written buffer",
            "Generated key sequences (motions, scrolls, edits, undo/redo, ex and window commands) over buffers/lines shorter and longer than "
            "windows of 3x10..40x120: the terminal stream up to a deterministic marker is interpreted by models/term.py; text rows must equal "
            "those after ^L, must be lines [t,t+rows) of the written buffer under one horizontal offset with ~ filler, and the terminal cursor "
            "must be on the cells of the cursor character.",
            "ASCII/tab/accented/CJK text only; attributes ignored; split screens: only the active window is compared with the buffer "
            "(stale inactive window = known finding F24).", "3/C19"),
    "C07": ("exploration", "model-based property testing of vi motions against a reference over code points and display columns",
            "Generated (text with tabs, wide, multi-byte and combining characters, empty lines and buffers; start position; sequences of "
            "1-12 motions with counts and marks; window height) run through vi -v; the cursor observed by a marker character must equal "
            "models/vim.py (word classes, paragraph, bracket matching, find/till with ; and ,, sticky column, window-relative H M L), the "
            "text must be unchanged and the cursor never on the terminator of a non-empty line.",
            "Reference trusted with documented calibrations; left-to-right text only.", "3/C07"),
    "C08": ("exploration", "model-based property testing of vi editing programs (text, cursor, registers) against a reference model",
            "Generated programs of 1-8 commands (operators x motions incl. doubled forms and both counts, x X D C s S Y p P J r ~, "
            "i a I A o O with insert-mode editing keys, register prefixes incl. upper-case append and numbered ones) over multi-byte text, "
            "empty buffers and lines; the written file with a cursor marker and a dump of registers (unnamed, a b c, 1-4) must equal "
            "models/vim.py.",
            "Reference trusted with documented calibrations; autoindent off; marks are left to C06/C07; shell filters to C04/C09.", "3/C08"),
}

ALL = ["C%02d" % i for i in range(1, 21)]

NOT_YET = "check not built yet in this round; will be claimed when its generator and oracle exist"


def main():
    hooks_commits = subprocess.run(["git", "-C", "/repo", "log", "--format=%H %s", "--grep=NEATVI_VERIF"],
                                   stdout=subprocess.PIPE).stdout.decode().split("\n")
    hooks_commits = [l.split()[0] for l in hooks_commits if l.strip()]
    checks = []
    for pid in ALL:
        if pid not in CHECKS:
            continue
        cat, tech, text, note, ref = CHECKS[pid]
        checks.append({
            "property_id": pid,
            "quick_cmd": "./check %s --tier quick" % pid,
            "thorough_cmd": "./check %s --tier thorough" % pid,
            "evidence_file": "/verif/evidence/%s.json" % pid,
            "replay_cmd_template": "./check %s --replay {path}" % pid,
            "engine": "hypothesis+c-probes",
            "level_claimed": {"category": cat, "text": text, "design_ref": "DESIGN.md section " + ref},
            "level_note": note,
            "technique": tech,
        })
    na = [{"property_id": p, "reason": NOT_YET} for p in ALL if p not in CHECKS]
    m = {
        "version": 1,
        "setup_cmd": "sh /verif/tools/setup.sh",
        "hooks": {
            "guard": "NEATVI_VERIF",
            "enable": "every check copies /repo/*.c *.h into a scratch dir and compiles with -DNEATVI_VERIF "
                      "(cc -O2 for the plain binary, clang -fsanitize=address,... for the instrumented one)",
            "baseline_off_cmd": "sh /verif/tools/baseline_off.sh",
            "source_commits": hooks_commits,
            "add_only": True,
        },
        "engines": [
            {"name": "hypothesis+c-probes", "path": "/verif/engine", "serves_properties": sorted(CHECKS),
             "kind_free_text": "Hypothesis 6.168 (python3-vt) sharded over 16 processes drives the real binary "
                               "(vi -s -e / vi -v on pipes) and C probe programs built from /repo's working tree; "
                               "exhaustive small-scope enumerations in C; libFuzzer for regex targets"},
        ],
        "checks": checks,
        "not_applicable": na,
        "notes": "Driver: ./check <ID> [--tier quick|thorough] [--replay FILE]; VERIF_SEED selects the seed. "
                 "Known findings: /verif/known_findings.json. Replays: /verif/replays/.",
    }
    if not na:
        del m["not_applicable"]
    with open(os.path.join(V, "MANIFEST.json"), "w") as f:
        json.dump(m, f, indent=1)
    try:
        import jsonschema
        jsonschema.validate(m, json.load(open("/root/.vp/MANIFEST.schema.json")))
        print("MANIFEST.json valid;", len(checks), "checks")
    except ImportError:
        print("written (jsonschema not available for validation)")


if __name__ == "__main__":
    main()
