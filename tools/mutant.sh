#!/bin/sh
# usage: tools/mutant.sh <ID> <file> <sed-expression> [tier]
# Applies a one-line mutation to a scratch copy of /repo (never /repo itself), checks that it
# builds and passes test.sh, runs the property's check against it, removes the copy.
ID=$1; F=$2; EXPR=$3; TIER=${4:-quick}
M=$(mktemp -d /tmp/nvmut.XXXXXX)
trap 'rm -rf "$M"' EXIT
cp -r /repo/*.c /repo/*.h /repo/Makefile /repo/test.sh /repo/test "$M"/ 2>/dev/null
cp "$M/$F" "$M/$F.orig"
sed -i -e "$EXPR" "$M/$F"
if cmp -s "$M/$F" "$M/$F.orig"; then echo "MUTANT: sed expression changed nothing"; exit 3; fi
diff "$M/$F.orig" "$M/$F" | head -6
rm "$M/$F.orig"
( cd "$M" && make -s >/dev/null 2>&1 ) || { echo "MUTANT: does not build"; exit 3; }
OKS=$(cd "$M" && timeout 120 sh test.sh 2>/dev/null | grep -c OK)
echo "MUTANT: test.sh OK count = $OKS"
mkdir -p "$M/ev" "$M/rp"
VERIF_REPO=$M VERIF_EVIDENCE_OUT=$M/ev VERIF_REPLAY_OUT=$M/rp timeout 900 /verif/check "$ID" --tier "$TIER" 2>&1 | grep -E "^(VIOLATION|KNOWN|C[0-9]+ tier|HARNESS)" | sort | uniq -c | head -8
echo "exit=$?"
