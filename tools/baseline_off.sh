#!/bin/sh
# Build a scratch copy of /repo WITHOUT the NEATVI_VERIF guard and run the repository's own
# test suite (test.sh: 24 ex tests + 36 vi tests).  Prints "<name>: OK" per test.
M=$(mktemp -d "${TMPDIR:-/tmp}/nvbase.XXXXXX")
trap 'rm -rf "$M"' EXIT
cp -r /repo/*.c /repo/*.h /repo/Makefile /repo/test.sh /repo/test "$M"/
cd "$M" && make -s >/dev/null 2>&1 || { echo "build failed"; exit 2; }
sh test.sh
