"""C02 - unsaved changes are never silently discarded on quit, edit or buffer switch."""
import os
import re

from hypothesis import strategies as st

from engine.core import Outcome
from engine import runner
from . import gen

ID = "C02"
LEVEL = "exploration"
RULE = ("Hypothesis: histories of 2-40 ex commands over 1-8 files (some not existing): text-changing commands, no-ops, :u, :redo, whole and "
        "partial-range writes to the own path, writes to other paths (with and without !), :e! reload, :e f, :e! f, :e #, :b n/+/-/%/#, with the "
        "buffer list (:b, '*' flags) and the current buffer's text observed after every step, and a final :q followed by a sentinel command.  "
        "Oracle: history invariant (text observed, file content tracked): dirty => flagged and :e/:b/:q refused with nothing lost; just written "
        "or undone/redone back to the saved point => clean and allowed.  Non-trivial = history contains a whole write or a return to the saved "
        "point AND a switch/quit probe issued while some buffer is dirty; distinct by SHA-1 of the case")
ASSUMPTIONS = ["autowrite/writeany off (as the statement says)", ":b ! (delete buffer) and a 17th file are outside the stated domain",
               "the text is observed (%w! to a scratch file), never predicted; files are not changed from outside during the history (C03 covers that)",
               "text equal to the saved text by coincidence (different undo position) may be reported either way"]

FILES = ["f%d" % i for i in range(16)]


def prepare(build, tier):
    return {"vi": build.vi_plain(), "shim": build.shim("fishim")}


def budget(tier):
    return (1200, 16) if tier == "quick" else (15000, 16)


@st.composite
def case(draw):
    nf = draw(st.integers(1, 8))
    files = {}
    for n in FILES[:nf]:
        if draw(st.integers(0, 5)):
            files[n] = ["%s line%d" % (n, i) for i in range(draw(st.integers(0, 4)))]
    steps = []
    for i in range(draw(st.integers(2, 40))):
        k = draw(st.integers(0, 23))
        f = draw(st.sampled_from(FILES[:nf]))
        if k <= 4:
            steps.append(["mod", draw(st.sampled_from(["$a\nt%d\n." % i, "1d", "1s/^/t%d/" % i, "0a\nt%d\n." % i, "$d", "1,$d"]))])
        elif k == 5:
            steps.append(["nop", draw(st.sampled_from(["1p", "=", "1ka", "y"]))])
        elif k <= 7:
            steps.append(["u", "u"])
        elif k == 8:
            steps.append(["r", "redo"])
        elif k <= 10:
            # a write followed by a change on the same command line: the saved point and the change must not share an undo sequence
            steps.append(draw(st.sampled_from([["w", "w"], ["w", "w"], ["wmod", "w|1s/^/m%d/" % i], ["wmod", "w|$d"], ["modwmod", "1s/^/a%d/|w|1s/^/b%d/" % (i, i)]])))
        elif k == 11:
            steps.append(["wpart", draw(st.sampled_from(["1w", "1,1w", "2,$w", "$w"]))])
        elif k == 12:
            steps.append(["wother", "w" + draw(st.sampled_from(["", "!"])) + " " + draw(st.sampled_from(FILES[:nf] + ["scratch"]))])
        elif k == 13:
            steps.append(["wother", "1w! " + draw(st.sampled_from(FILES[:nf] + ["scratch"]))])
        elif k == 14:
            steps.append(draw(st.sampled_from([["reload", "e!"], ["reload", "e!"], ["reloadmod", "e! +1d"], ["reloadmod", "e! +1s/^/r%d/" % i]])))
        elif k <= 17:
            steps.append(["sw", "e " + f])
        elif k == 18:
            steps.append(["swf", "e! " + f])
        elif k == 19:
            steps.append(["sw", "e #"])
        elif k <= 22:
            steps.append(["sw", "b " + draw(st.sampled_from(["1", "2", "3", "+", "-", "#", "%", "^"]))])
        else:
            steps.append(["swf", "b! " + draw(st.sampled_from(["1", "2", "+", "-", "#"]))])
    first = draw(st.sampled_from(FILES[:nf]))
    if draw(st.integers(0, 7)) == 0:
        # all 16 buffer slots in use, the modified buffer being the least recently used one
        first = "f0"
        steps = [["mod", "$a\ntfull\n."]] + [["swf", "e! f%d" % i] for i in range(1, 16)] + steps[:draw(st.integers(0, 6))]
    c = {"files": files, "first": first, "steps": steps, "quit": draw(st.sampled_from(["q", "q", "x", "wq"]))}
    if draw(st.integers(0, 3)) == 0:
        # write faults (LD_PRELOAD shim of C03) on one of the files: a short count followed by an error, a plain error, ... at some
        # point of the sequence of open/write/close calls the history makes on that file.  "Successfully written" must then mean
        # that the file really holds the text.
        i = draw(st.integers(0, 14))
        c["fault"] = {"path": draw(st.sampled_from(FILES[:nf])),
                      "plan": draw(st.sampled_from([[[i, "S3"], [i + 1, "E28"]], [[i, "E28"]], [[i, "S1"], [i + 1, "E5"]], [[i, "E5"], [i + 3, "E28"]], [[i, "S2"]]]))}
    return c


def strategy(tier):
    return case()


BUFLINE = re.compile(r"^\s*(\d+) (.) (\S*) (.)$")


def parse_list(seg):
    """rows of the :b listing: [(id, alias, path, starred)]; rows are printed without separators"""
    rows = []
    for m in re.finditer(r" ?(\d+) ([%#^ ]) (\S*) ([* ])", seg):
        rows.append((int(m.group(1)), m.group(2), m.group(3), m.group(4) == "*"))
    return rows


class Buf:
    def __init__(self, text):
        self.text = text           # observed text (bytes)
        self.saved = text          # content of the file when last read / completely written by the editor
        self.ids = [0]
        self.cur = 0
        self.saved_id = 0
        self.nid = 1
        self.hist_known = True
        self.forced_dirty = False  # after a partial write to the own path


UNKNOWN = None      # content of a file after a write that was reported as failed


# ---- unnamed buffer: which writes give it a name, and which of them make it clean
UN_ACTIONS = ["w !cat >/dev/null", "%w !cat >/dev/null", "1w part", "2,3w part", "w whole", "1,$w whole", "w! whole", "1w! part", "w", "2,3w! whole", "w part"]


def un_model(actions):
    """returns (name, dirty, files) after the actions on an unnamed buffer holding three appended lines"""
    text = ["u1", "u2", "u3"]
    name, dirty, files = "", True, {}
    for a in actions:
        if "!cat" in a:
            continue                        # piped to a command: no file involved
        parts = a.split()
        cmd = parts[0]
        target = parts[1] if len(parts) > 1 else name
        if not target:
            continue                        # :w without a name
        force = cmd.endswith("!")
        rng = cmd.rstrip("!")[:-1]
        lines = {"": text, "%": text, "1,$": text, "1": text[:1], "2,3": text[1:3]}[rng]
        if target in files and not force and target != name:
            continue                        # refused: file exists
        files[target] = list(lines)
        if name == "":
            name = target
        if name == target:
            dirty = lines != text
    return name, dirty, files


def run_unnamed(env, c):
    d = env.fresh()
    script = "se noaw\nse nowa\na\nu1\nu2\nu3\n.\n" + "".join(a + "\n" for a in c["actions"]) + "ec @@L@@\nb\nec @@M@@\nq\nec @@ALIVE@@\n"
    r = runner.run_editor(env.paths["vi"], ["-s", "-e"], script.encode() + runner.EX_TRAILER, d, want_stats=False)
    if r.timeout or r.crashed():
        return Outcome(not r.crashed(), False, ["unnamed"], inconclusive=r.timeout, detail={"why": "editor crashed", "sig": r.signature(), "actions": c["actions"]})
    out = r.out.decode("utf-8", "replace")
    name, dirty, files = un_model(c["actions"])
    m = re.search(r"@@L@@(.*?)@@M@@", out, re.S)
    rows = parse_list(m.group(1)) if m else []
    det = {"actions": c["actions"], "model": {"name": name, "modified": dirty}, "listing": rows}
    if not rows:
        return Outcome(False, True, ["unnamed"], detail=dict(det, why="no buffer listing"))
    if rows[0][2] != name:
        return Outcome(False, True, ["unnamed"], detail=dict(det, why="the buffer is called %r, expected %r (only a file the text was written to gives it a name)" % (rows[0][2], name)))
    if bool(rows[0][3]) != dirty:
        return Outcome(False, True, ["unnamed"], detail=dict(det, why="modified flag is %s although the whole text %s in its file" % (rows[0][3], "is not" if dirty else "is")))
    alive = "@@ALIVE@@" in out
    if alive != dirty:
        return Outcome(False, True, ["unnamed"], detail=dict(det, why=":q %s" % ("refused although the whole text was written to the buffer's file" if alive else "exited and discarded text that is in no file")))
    for f, ls in files.items():
        if runner.read_file(d, f) != gen.to_bytes(ls):
            return Outcome(False, True, ["unnamed"], detail=dict(det, why="file %s does not hold the written lines" % f))
    return Outcome(True, True, ["unnamed"])


def run_dirreload(env, c):
    """the edited 'file' is a directory: it can be opened but not read.  :e! must not mark the typed text saved."""
    d = env.fresh()
    os.makedirs(os.path.join(d, "adir"), exist_ok=True)
    script = "se noaw\nse nowa\na\nprecious\n.\n" + "".join(x + "\n" for x in c["cmds"]) + "ec @@L@@\nb\nec @@M@@\nq\nec @@ALIVE@@\n"
    r = runner.run_editor(env.paths["vi"], ["-s", "-e", "adir"], script.encode() + runner.EX_TRAILER, d, want_stats=False)
    if r.timeout or r.crashed():
        return Outcome(not r.crashed(), False, ["dirreload"], inconclusive=r.timeout, detail={"why": "editor crashed", "sig": r.signature(), "cmds": c["cmds"]})
    out = r.out.decode("utf-8", "replace")
    m = re.search(r"@@L@@(.*?)@@M@@", out, re.S)
    rows = parse_list(m.group(1)) if m else []
    if not any(r_[3] for r_ in rows):
        return Outcome(False, True, ["dirreload"], detail={"why": "the typed text is in no file, but no buffer is flagged modified after %r" % c["cmds"], "listing": rows})
    if "@@ALIVE@@" not in out:
        return Outcome(False, True, ["dirreload"], detail={"why": ":q exited and discarded text that is in no file after %r" % c["cmds"]})
    return Outcome(True, True, ["dirreload"])


DIR_CMDS = [["e!"], ["e!", "e!"], ["e! +1"], ["e"], ["e!", "1p"], ["w"], ["w", "e!"], ["e! adir"], ["e! ./adir"]]


def extra(env, tier, seed):
    import itertools
    dviol = []
    for cm in DIR_CMDS:
        o = run_dirreload(env, {"kind": "dirreload", "cmds": cm})
        if not o.ok and not o.inconclusive and len(dviol) < 2:
            dviol.append({"case": {"kind": "dirreload", "cmds": cm}})
    dres = {"name": "reload_of_an_unreadable_file", "exhaustive": True, "evaluations": len(DIR_CMDS), "distinct_nontrivial": len(DIR_CMDS),
            "samples": DIR_CMDS[:3], "violations": dviol}
    seqs = [[a] for a in UN_ACTIONS] + [list(t) for t in itertools.product(UN_ACTIONS, repeat=2)]
    if tier != "quick":
        seqs += [list(t) for t in itertools.product(UN_ACTIONS[:8], repeat=3)]
    viol = []
    for sq in seqs:
        o = run_unnamed(env, {"kind": "unnamed", "actions": sq})
        if not o.ok and not o.inconclusive and len(viol) < 3:
            viol.append({"case": {"kind": "unnamed", "actions": sq}})
    return [dres, {"name": "unnamed_buffer_all_write_sequences_le_%d" % (2 if tier == "quick" else 3), "exhaustive": True, "evaluations": len(seqs), "distinct_nontrivial": len(seqs),
             "alphabet": UN_ACTIONS, "samples": [["2,3w part"], ["w !cat >/dev/null"], ["1w part", "w"]], "violations": viol}]


def run_case(env, c):
    if c.get("kind") == "unnamed":
        return run_unnamed(env, c)
    if c.get("kind") == "dirreload":
        return run_dirreload(env, c)
    d = env.fresh()
    fpath = (c.get("fault") or {}).get("path")
    disk = {}
    for n, ls in c["files"].items():
        disk[n] = gen.to_bytes(ls)
        runner.write_file(d, n, disk[n])
    script = ["se noaw\nse nowa\n"]
    for i, (k, cmd) in enumerate(c["steps"]):
        script.append("ec @@A%d@@\n%s\nec @@B%d@@\nb\nec @@C%d@@\n%%w! snap%d\n" % (i, cmd, i, i, i))
    n = len(c["steps"])
    script.append("ec @@A%d@@\n%s\nec @@ALIVE@@\nb\nec @@D@@\n" % (n, c["quit"]))
    envx = None
    if c.get("fault"):
        envx = {"LD_PRELOAD": env.paths["shim"], "NVFI_PATH": c["fault"]["path"], "NVFI_PLAN": ",".join("%d:%s" % (i, k) for i, k in c["fault"]["plan"])}
    r = runner.run_editor(env.paths["vi"], ["-s", "-e", c["first"]], "".join(script).encode() + runner.EX_TRAILER, d, want_stats=False, env_extra=envx)
    if r.timeout:
        return Outcome(True, False, ["timeout"], inconclusive=True)
    if r.crashed():
        return Outcome(False, False, ["crash"], detail={"why": "editor crashed", "sig": r.signature()})
    out = r.out.decode("utf-8", "replace")
    bufs = {}                       # path -> Buf
    cur = c["first"]
    bufs[cur] = Buf(disk.get(cur, b""))
    info = {"clean_point": False, "dirty_probe": False}
    rawunknown = set()      # files whose bytes are not known exactly since a failed write (until the next successful one)
    cl = []

    def dirty(b):
        return b.forced_dirty or b.text != b.saved

    def fail(why, i):
        return Outcome(False, info["clean_point"] and info["dirty_probe"], cl, detail={"why": why, "step": i, "steps": c["steps"][:i + 1], "files": c["files"],
                                                                                      "first": c["first"], "quit": c["quit"]})
    for i, (k, cmd) in enumerate(c["steps"]):
        m = re.search(r"@@A%d@@(.*?)@@B%d@@(.*?)@@C%d@@" % (i, i, i), out, re.S)
        if not m:
            return fail("sentinels of step %d missing (editor left early?)" % i, i)
        msg, listing = m.group(1), parse_list(m.group(2))
        snap = runner.read_file(d, "snap%d" % i)
        if not listing or snap is None:
            return fail("no buffer list / snapshot after step %d" % i, i)
        newcur = listing[0][2]
        b = bufs[cur]
        was_dirty = dirty(b)
        refused = "buffer modified" in msg
        if k in ("sw",):
            if was_dirty:
                info["dirty_probe"] = True
                if newcur != cur or not refused:
                    if not ("no such buffer" in msg or newcur == cur):
                        return fail("switched away from a buffer whose text differs from its file without '!' (%r)" % cmd, i)
            elif b.hist_known and b.ids[b.cur] == b.saved_id and not b.forced_dirty and refused:
                return fail("switch refused although the buffer is at its saved point (%r)" % cmd, i)
        if newcur != cur:
            # switched (allowed or forced): the buffer left behind keeps its text
            cur = newcur
            if cur not in bufs:
                if cur in disk and disk[cur] is UNKNOWN:
                    disk[cur] = snap
                bufs[cur] = Buf(disk.get(cur, b""))
                if snap != bufs[cur].text:
                    return fail("newly opened buffer does not hold the file's content", i)
            elif snap != bufs[cur].text:
                return fail("text of buffer %s changed while it was not current" % cur, i)
            b = bufs[cur]
        else:
            changed = snap != b.text
            if k == "mod":
                if changed:
                    b.ids = b.ids[:b.cur + 1] + [b.nid]
                    b.nid += 1
                    b.cur += 1
                else:
                    b.hist_known = False
            elif k == "u":
                if b.cur > 0 and b.hist_known:
                    b.cur -= 1
                elif changed:
                    b.hist_known = False
            elif k == "r":
                if b.cur < len(b.ids) - 1 and b.hist_known:
                    b.cur += 1
                elif changed:
                    b.hist_known = False
            elif k == "reload":
                if cur in disk and disk[cur] is UNKNOWN:
                    # after a failed write the file holds some prefix - or was never created (the open itself failed): the read
                    # message tells which
                    if "[r]" in msg:
                        disk[cur] = snap        # (as text; the bytes may differ - a missing final newline - hence rawunknown)
                    else:
                        del disk[cur]
                if cur in disk:
                    b.ids = b.ids[:b.cur + 1] + [b.nid]
                    b.nid += 1
                    b.cur += 1
                    b.saved_id = b.ids[b.cur]
                    b.saved = disk[cur]
                    b.forced_dirty = False
                    if snap != disk[cur]:
                        return fail(":e! did not reload the file's content", i)
                elif changed:
                    return fail(":e! on a file that does not exist changed the text", i)
                # (the file does not exist: nothing is read, the buffer keeps its text and its modified state - F29, fixed 24c3fb3)
            elif k in ("wmod", "modwmod", "reloadmod"):
                pass        # handled below (the written / reloaded text is known, the final text is observed)
            elif k in ("nop", "w", "wpart", "wother", "sw", "swf") and changed:
                return fail("command %r changed the text" % cmd, i)
            if k not in ("wmod", "modwmod", "reloadmod"):
                b.text = snap
        ok_write = "[w]" in msg
        if fpath and not ok_write and k in ("w", "wmod", "modwmod", "wpart", "wother"):
            tgt = cmd.split()[-1] if k == "wother" else cur
            if tgt == fpath:
                disk[tgt] = UNKNOWN          # cut short somewhere: only a later successful write or a reload tells what it holds
                rawunknown.add(tgt)
        if k == "reloadmod" and cur in disk and disk[cur] is UNKNOWN:
            return Outcome(True, False, ["fault_then_reload_with_command_not_judged"])
        if k in ("wmod", "modwmod", "reloadmod") and newcur == cur:
            if k == "reloadmod":
                if cur in disk:
                    written = disk[cur]
                else:
                    written = None          # nothing to reload: the +command is just another change
            elif ok_write:
                if k == "wmod":
                    written = b.text
                else:       # a<i>|w|b<i>: the text written is the final text without the second prefix
                    tag = cmd.split("|")[2][5:-1]
                    # (when the second substitution did not apply - empty buffer - the text written is the final text)
                    written = snap[len(tag):] if snap.startswith(tag.encode()) else snap
                if written is not None:
                    disk[cur] = written
            else:
                written = None
            if written is not None:
                b.saved = written
                b.forced_dirty = False
                b.hist_known = False         # several history steps inside one command line: only the text relation is asserted
                b.saved_id = -1 if snap != written else b.ids[b.cur]
                info["clean_point"] = True
            else:
                b.hist_known = False
            b.text = snap
        if ok_write and k in ("w", "wmod", "modwmod", "wpart"):
            rawunknown.discard(cur)
        if ok_write and k == "wother":
            rawunknown.discard(cmd.split()[-1])
        if k == "w" and ok_write:
            disk[cur] = b.text
            b.saved = b.text
            b.saved_id = b.ids[b.cur]
            b.forced_dirty = False
            info["clean_point"] = True
        elif k == "wpart" and ok_write:
            lines = b.text.split(b"\n")[:-1]
            a = cmd[:-1]
            if a in ("1", "1,1"):
                part = lines[:1]
            elif a == "2,$":
                part = lines[1:]
            else:
                part = lines[-1:]
            disk[cur] = b"".join(l + b"\n" for l in part)
            if disk[cur] != b.text:
                b.forced_dirty = True       # the file no longer holds the buffer's text
                b.saved = None
            else:
                b.saved = b.text
                b.saved_id = b.ids[b.cur]
                b.forced_dirty = False
        elif k == "wother" and ok_write:
            target = cmd.split()[-1]
            lines = b.text.split(b"\n")[:-1]
            disk[target] = b"".join(l + b"\n" for l in (lines[:1] if cmd.startswith("1w") else lines))
            if target == cur and not cmd.startswith("1w"):
                b.saved = b.text
                b.saved_id = b.ids[b.cur]
                b.forced_dirty = False
            elif target == cur:
                if disk[target] != b.text:
                    b.forced_dirty = True
                    b.saved = None
                else:                      # the "range" was the whole buffer
                    b.saved = b.text
                    b.saved_id = b.ids[b.cur]
                    b.forced_dirty = False
        if b.hist_known and b.cur < len(b.ids) and b.ids[b.cur] == b.saved_id and k in ("u", "r"):
            info["clean_point"] = True
        # (I1) the indicator never reports clean while text and file differ; and is clear at the saved point
        flags = {p: star for _, _, p, star in listing}
        for p, bb in bufs.items():
            if p not in flags:
                continue
            if dirty(bb) and not flags[p]:
                return fail("buffer %s differs from its file but is not flagged '*'" % p, i)
            if not dirty(bb) and not bb.forced_dirty and bb.hist_known and bb.ids[bb.cur] == bb.saved_id and flags[p]:
                return fail("buffer %s is at its saved point but flagged '*'" % p, i)
    # final quit
    anyd = [p for p, bb in bufs.items() if dirty(bb)]
    alive = "@@ALIVE@@" in out
    if c["quit"] == "q":
        if anyd:
            info["dirty_probe"] = True
            if not alive:
                return fail(":q exited although buffer(s) %s differ from their files" % anyd, n)
            m = re.search(r"@@ALIVE@@(.*?)@@D@@", out, re.S)
            rows = parse_list(m.group(1)) if m else []
            if rows and rows[0][2] not in anyd and not rows[0][3]:
                # (a buffer whose text equals its file only by coincidence may legitimately count as modified)
                return fail(":q refused but did not switch to a modified buffer", n)
        else:
            allclean = all(bb.hist_known and bb.ids[bb.cur] == bb.saved_id and not bb.forced_dirty for bb in bufs.values())
            if allclean and alive:
                return fail(":q refused although every buffer is at its saved point", n)
    else:
        # :x / :wq write the current buffer first; other dirty buffers still refuse the exit
        others = [p for p in anyd if p != cur]
        if others and not alive:
            info["dirty_probe"] = True
            return fail(":%s exited although buffer(s) %s differ from their files" % (c["quit"], others), n)
    # (I2) what was reported as successfully written is what the files hold (the file of the buffer current at :x / :wq excepted)
    for p_, want in sorted(disk.items()):
        if want is UNKNOWN or p_ in rawunknown or (c["quit"] != "q" and p_ == cur):
            continue
        have = runner.read_file(d, p_)
        if (have or b"") != want:
            return fail("file %s does not hold the text of the last write reported as successful (%d bytes, expected %d)" % (p_, len(have or b""), len(want)), n)
    nt = info["clean_point"] and info["dirty_probe"]
    cl = (["write_faults"] if fpath else []) + ["nbuf_%d" % min(len(bufs), 4)] + (["clean_point"] if info["clean_point"] else []) + (["dirty_probe"] if info["dirty_probe"] else [])
    return Outcome(True, nt, cl)
