"""C20 - each open buffer keeps its own text, position and dirty state across switches."""
import re

from hypothesis import strategies as st

from engine.core import Outcome
from engine import runner
from models import lined
from . import gen
from .c02 import parse_list

ID = "C20"
LEVEL = "exploration"
RULE = ("Hypothesis: histories of 3-45 commands over 2-16 files (some not existing): :e f, :e! f, :e #, :e of an open path, :b n / + / - / % / # / ^, "
        ":b ! (delete), :b ~ (renumber), edits with unique tokens, line moves, :u, :w, and a final :q; after every step the :b listing (ids, aliases, "
        "paths, '*'), the current text and the current line are compared with a multi-buffer model (MRU table).  Non-trivial = >=3 buffers, >=1 "
        "switch away from a dirty buffer and back, >=1 alias or +/- switch; distinct by SHA-1 of the case")
ASSUMPTIONS = ["per-buffer text and current line are modelled with models/lined.py (only commands whose effect it models exactly are generated)",
               "at most 16 distinct paths (a 17th file silently replaces the least recently used buffer: outside the stated domain)"]

FILES = ["f%d" % i for i in range(16)]


def prepare(build, tier):
    return {"vi": build.vi_plain()}


def budget(tier):
    return (500, 16) if tier == "quick" else (12000, 16)


@st.composite
def case(draw):
    nf = draw(st.sampled_from([2, 3, 3, 4, 5, 8, 16]))
    files = {}
    for n in FILES[:nf]:
        if draw(st.integers(0, 4)):
            files[n] = ["%s.%d" % (n, i) for i in range(draw(st.integers(0, 5)))]
    steps = []
    for i in range(draw(st.integers(3, 45))):
        k = draw(st.integers(0, 28))
        f = draw(st.sampled_from(FILES[:nf]))
        if k >= 26:
            # round trip: change this buffer and its current line, leave it without saving, work elsewhere, come back
            steps.append(["ed", draw(st.sampled_from(["$a", "0a", "1d", "1s", "2a"])), "t%d" % i])
            if draw(st.booleans()):
                steps.append(["mv", draw(st.sampled_from(["1", "2", "$", "3"]))])
            steps.append(draw(st.sampled_from([["e", f, True], ["e#", "", True], ["b", "#"], ["b", "+"], ["b", "-"], ["b", "^"]])))
            if draw(st.booleans()):
                steps.append(draw(st.sampled_from([["ed", "$a", "t%dx" % i], ["mv", "2"], ["w"], ["u"]])))
            steps.append(draw(st.sampled_from([["e#", "", True], ["b", "#"], ["b", "#"], ["b", "-"], ["b", "+"]])))
        elif k <= 4:
            steps.append(["e", f, False])
        elif k <= 6:
            steps.append(["e", f, True])
        elif k == 7:
            steps.append(["e#", "", draw(st.booleans())])
        elif k <= 11:
            steps.append(["b", draw(st.sampled_from(["1", "2", "3", "4", "5", "9", "+", "-", "+", "-", "%", "#", "^"]))])
        elif k == 12:
            steps.append(["b", "!"])
        elif k == 13:
            steps.append(["b", "~"])
        elif k <= 17:
            steps.append(["ed", draw(st.sampled_from(["$a", "0a", "1d", "$d", "1s", "2a"])), "t%d" % i])
        elif k <= 19:
            steps.append(["mv", draw(st.sampled_from(["1", "2", "$", "3"]))])
        elif k == 20:
            steps.append(["u"])
        elif k <= 23:
            steps.append(["w"])
        else:
            steps.append(["b", draw(st.sampled_from(["+", "-"]))])
    if nf == 16 and draw(st.booleans()):
        # fill the whole 16-slot table first (forced edits keep a modified first buffer as the least recently used one):
        # the boundary at which look-ups and quit checks that stop one slot short go wrong
        pre = []
        if draw(st.booleans()):
            pre.append(["ed", "$a", "tfull"])
        pre += [["e", f, True] for f in FILES[1:16]]
        steps = pre + steps[:20]
    return {"files": files, "steps": steps}


def strategy(tier):
    return case()


class MBuf:
    def __init__(self, bid, path, lines):
        self.id = bid
        self.path = path
        self.ed = lined.Ed(lines)
        self.hist = [(list(lines), 0)]     # (text, state id)
        self.cur = 0
        self.nid = 1
        self.saved_id = 0

    def modified(self):
        return self.hist[self.cur][1] != self.saved_id


def T(b, o=()):
    return {"b": b, "o": list(o)}


class Model:
    def __init__(self, disk, first):
        self.disk = dict(disk)
        self.cnt = 0
        self.bufs = []
        self.open(first)
        self.msgs = []

    def open(self, path):
        self.cnt += 1
        b = MBuf(self.cnt, path, list(self.disk.get(path, [])))
        self.bufs.insert(0, b)
        return b

    def cur(self):
        return self.bufs[0]

    def switch(self, idx):
        b = self.bufs.pop(idx)
        self.bufs.insert(0, b)

    def find(self, path):
        for i, b in enumerate(self.bufs):
            if b.path == path:
                return i
        return -1

    def edit_cmd(self, path, force):
        if not force and self.cur().modified():
            return "refused"
        i = self.find(path)
        if i >= 0:
            self.switch(i)
        else:
            self.open(path)
        return "ok"

    def listing(self):
        al = "%#^"
        return [(b.id, al[i] if i < 3 else " ", b.path, b.modified()) for i, b in enumerate(self.bufs)]

    def step(self, s):
        k = s[0]
        c = self.cur()
        if k == "e":
            return self.edit_cmd(s[1], s[2])
        if k == "e#":
            if len(self.bufs) < 2:
                if not s[2] and c.modified():
                    return "refused"
                return "nopath"
            return self.edit_cmd(self.bufs[1].path, s[2])
        if k == "b":
            a = s[1]
            if a == "!":
                self.bufs.pop(0)
                if not self.bufs:
                    self.cnt += 1
                    self.bufs.append(MBuf(self.cnt, "", []))
                return "ok"
            if a == "~":
                for i, b in enumerate(self.bufs):
                    b.id = i + 1
                self.cnt = len(self.bufs)
                return "ok"
            idx = -1
            if a.isdigit():
                for i, b in enumerate(self.bufs):
                    if b.id == int(a):
                        idx = i
                        break
            elif a == "-":
                cands = [(b.id, i) for i, b in enumerate(self.bufs) if b.id < c.id]
                idx = max(cands)[1] if cands else -1
            elif a == "+":
                cands = [(b.id, i) for i, b in enumerate(self.bufs) if b.id > c.id]
                idx = min(cands)[1] if cands else -1
            else:
                idx = "%#^".index(a)
                if idx >= len(self.bufs):
                    idx = -1
            if idx < 0:
                return "nosuch"
            if c.modified():
                return "refused"
            self.switch(idx)
            return "ok"
        if k == "ed":
            op, tok = s[1], s[2]
            before = c.ed.text()
            if op == "$a":
                ret = c.ed.cmd({"c": "a", "a": [["", T(["$"])]]}) if not c.ed.__setattr__("blocks", [[tok]]) and not c.ed.__setattr__("blocks_used", 0) else 1
            elif op == "0a":
                c.ed.blocks, c.ed.blocks_used = [[tok]], 0
                ret = c.ed.cmd({"c": "a", "a": [["", T(["n", 0])]]})
            elif op == "2a":
                c.ed.blocks, c.ed.blocks_used = [[tok, tok + "b"]], 0
                ret = c.ed.cmd({"c": "a", "a": [["", T(["n", 2])]]})
            elif op == "1d":
                ret = c.ed.cmd({"c": "d", "a": [["", T(["n", 1])]], "r": ""})
            elif op == "$d":
                ret = c.ed.cmd({"c": "d", "a": [["", T(["$"])]], "r": ""})
            else:
                ret = c.ed.cmd({"c": "s", "a": [["", T(["n", 1])]], "pat": ["bol"], "repl": [["l", x] for x in tok], "g": False})
            if c.ed.text() != before:
                c.hist = c.hist[:c.cur + 1] + [(c.ed.text(), c.nid)]
                c.nid += 1
                c.cur += 1
            return "ok"
        if k == "mv":
            a = s[1]
            c.ed.cmd({"c": "k", "a": [["", T(["$"] if a == "$" else ["n", int(a)])]], "m": "z"})     # k does not move; emulate a bare address via p
            c.ed.out = []
            c.ed.cmd({"c": "p", "a": [["", T(["$"] if a == "$" else ["n", int(a)])]]})
            return "ok"
        if k == "u":
            if c.cur > 0:
                c.cur -= 1
                lines = c.hist[c.cur][0]
                xr = c.ed.xrow
                marks = None
                c.ed = lined.Ed(list(lines))
                c.ed.xrow = xr
            return "ok"
        if k == "w":
            if c.path == "":
                return "ok"
            self.disk[c.path] = c.ed.text()
            c.saved_id = c.hist[c.cur][1]
            return "ok"
        raise ValueError(k)


def cmd_text(s):
    k = s[0]
    if k == "e":
        return "e%s %s" % ("!" if s[2] else "", s[1])
    if k == "e#":
        return "e%s #" % ("!" if s[2] else "")
    if k == "b":
        return "b " + s[1]
    if k == "ed":
        op, tok = s[1], s[2]
        if op in ("$a", "0a"):
            return "%s\n%s\n." % (op, tok)
        if op == "2a":
            return "2a\n%s\n%sb\n." % (tok, tok)
        if op in ("1d", "$d"):
            return op
        return "1s/^/%s/" % tok
    if k == "mv":
        return s[1] + "p"
    if k == "u":
        return "u"
    if k == "w":
        return "w"


def run_case(env, c):
    d = env.fresh()
    for n, ls in c["files"].items():
        runner.write_file(d, n, gen.to_bytes(ls))
    # pre-pass: a :b ! that would delete the last buffer leaves an unnamed buffer, which the observer's ":w! snapN" would
    # name and later writes would overwrite; such steps are replaced by a no-op (counted)
    pre = Model(c["files"], "f0")
    steps = []
    skipped = 0
    for s in c["steps"]:
        if s[0] == "b" and s[1] == "!" and len(pre.bufs) == 1:
            s = ["mv", "1"]
            skipped += 1
        if s[0] == "ed" and s[1] == "$a":
            pre.step(["ed", "0a", s[2]])
        else:
            pre.step(s)
        steps.append(s)
    c = dict(c, steps=steps)
    script = ["se noaw\nse nowa\n"]
    for i, s in enumerate(c["steps"]):
        script.append("%s\nec @@B%d@@\nb\nec @@C%d@@\n.=\nec @@D%d@@\n%%w! snap%d\n" % (cmd_text(s), i, i, i, i))
    script.append("q\nec @@ALIVE@@\nb\nec @@E@@\n")
    r = runner.run_editor(env.paths["vi"], ["-s", "-e", "f0"], "".join(script).encode() + runner.EX_TRAILER, d, want_stats=False)
    if r.timeout:
        return Outcome(True, False, ["timeout"], inconclusive=True)
    if r.crashed():
        return Outcome(False, False, ["crash"], detail={"why": "editor crashed", "sig": r.signature()})
    out = r.out.decode("utf-8", "replace")
    m = Model(c["files"], "f0")
    info = {"back_to_dirty": False, "alias": False, "left_dirty": set()}

    def fail(why, i, **kw):
        det = {"why": why, "step": i, "steps": c["steps"][:i + 1], "files": c["files"]}
        det.update(kw)
        return Outcome(False, False, [], detail=det)
    for i, s in enumerate(c["steps"]):
        if s[0] == "ed" and s[1] == "$a":
            m.cur().ed.blocks, m.cur().ed.blocks_used = [[s[2]]], 0
            before = m.cur().ed.text()
            m.cur().ed.cmd({"c": "a", "a": [["", T(["$"])]]})
            cb = m.cur()
            if cb.ed.text() != before:
                cb.hist = cb.hist[:cb.cur + 1] + [(cb.ed.text(), cb.nid)]
                cb.nid += 1
                cb.cur += 1
        else:
            prev = m.cur()
            res = m.step(s)
            if s[0] in ("e", "e#", "b") and m.cur() is not prev:
                if prev.modified():
                    info["left_dirty"].add(prev.path)
                if m.cur().path in info["left_dirty"] and m.cur().modified():
                    info["back_to_dirty"] = True
                if s[0] == "e#" or (s[0] == "b" and s[1] in "+-%#^"):
                    info["alias"] = True
        pending_rename = m.cur().path == ""
        mm = re.search(r"@@B%d@@(.*?)@@C%d@@(.*?)@@D%d@@" % (i, i, i), out, re.S)
        if not mm:
            return fail("sentinels of step %d missing" % i, i)
        rows = parse_list(mm.group(1))
        want = m.listing()
        if rows != want:
            return fail("buffer list differs from the model", i, got=rows, want=want)
        snap = runner.read_file(d, "snap%d" % i)
        if snap != gen.to_bytes(m.cur().ed.text()):
            return fail("text of the buffer reached differs from the model", i, got=snap, want=gen.to_bytes(m.cur().ed.text()))
        ed = m.cur().ed
        try:
            _, e = ed.region([["", T(["."])]])
            wdot = "%d\n" % e
        except lined.Fail:
            wdot = ""
        if mm.group(2) != wdot:
            return fail("current line of the buffer reached differs from the model", i, got=mm.group(2), want=wdot)
        if pending_rename:
            # the observer's "%w! snapN" gives an unnamed buffer that name and marks it saved (documented :w behaviour)
            cb = m.cur()
            cb.path = "snap%d" % i
            cb.saved_id = cb.hist[cb.cur][1]
            m.disk[cb.path] = cb.ed.text()
    alive = "@@ALIVE@@" in out
    dirty = [b for b in m.bufs if b.modified()]
    if bool(dirty) != alive:
        return fail(":q %s although %d buffer(s) are modified" % ("refused" if alive else "exited", len(dirty)), len(c["steps"]))
    if alive:
        mm = re.search(r"@@ALIVE@@(.*?)@@E@@", out, re.S)
        rows = parse_list(mm.group(1)) if mm else []
        first = next(i for i, b in enumerate(m.bufs) if b.modified())
        m.switch(first)
        if rows != m.listing():
            return fail(":q refused but the buffer list is not the model's (first modified buffer made current)", len(c["steps"]), got=rows, want=m.listing())
    nt = len(m.bufs) >= 3 and info["back_to_dirty"] and info["alias"]
    return Outcome(True, nt, ["nbuf_%d" % min(len(m.bufs), 5)] + (["back_to_dirty"] if info["back_to_dirty"] else []) + (["alias"] if info["alias"] else []))
