"""C20 - each open buffer keeps its own text, position and dirty state across switches."""
import re

from hypothesis import strategies as st

from engine.core import Outcome
from engine import runner
from models import lined
from . import gen
from .c02 import parse_list

ID = "C20"
LEVEL = "exploration"
RULE = ("Hypothesis: histories of 3-45 commands over 2-16 files (some not existing): :e f, :e! f, :e #, :e of an open path, :b n / + / - / % / # / ^, "
        ":b ! (delete), :b ~ (renumber), edits with unique tokens, line moves, :u, :w, and a final :q; after every step the :b listing (ids, aliases, "
        "paths, '*'), the current text and the current line are compared with a multi-buffer model (MRU table).  Non-trivial = >=3 buffers, >=1 "
        "switch away from a dirty buffer and back, >=1 alias or +/- switch; distinct by SHA-1 of the case.  A quarter of the cases are vi-mode histories "
        "(shortcuts ^^ zj zk, per-buffer cursor column), another quarter split-window histories (^W s j k o c x, ^L, over files whose names an ex command "
        "line would interpret and the unnamed buffer; invariant: no switch changes the text or dirty state of any buffer; non-trivial = a window switch "
        "while a buffer is dirty)")
ASSUMPTIONS = ["per-buffer text and current line are modelled with models/lined.py (only commands whose effect it models exactly are generated)",
               "at most 16 distinct paths (a 17th file silently replaces the least recently used buffer: outside the stated domain)"]

FILES = ["f%d" % i for i in range(16)]


def prepare(build, tier):
    return {"vi": build.vi_plain(), "src": build.src}


def budget(tier):
    return (500, 16) if tier == "quick" else (12000, 16)


@st.composite
def case(draw):
    nf = draw(st.sampled_from([2, 3, 3, 4, 5, 8, 16]))
    files = {}
    for n in FILES[:nf]:
        if draw(st.integers(0, 4)):
            files[n] = ["%s.%d" % (n, i) for i in range(draw(st.integers(0, 5)))]
    steps = []
    for i in range(draw(st.integers(3, 45))):
        k = draw(st.integers(0, 28))
        f = draw(st.sampled_from(FILES[:nf]))
        if k >= 26:
            # round trip: change this buffer and its current line, leave it without saving, work elsewhere, come back
            steps.append(["ed", draw(st.sampled_from(["$a", "0a", "1d", "1s", "2a"])), "t%d" % i])
            if draw(st.booleans()):
                steps.append(["mv", draw(st.sampled_from(["1", "2", "$", "3"]))])
            steps.append(draw(st.sampled_from([["e", f, True], ["e#", "", True], ["b", "#"], ["b", "+"], ["b", "-"], ["b", "^"]])))
            if draw(st.booleans()):
                steps.append(draw(st.sampled_from([["ed", "$a", "t%dx" % i], ["mv", "2"], ["w"], ["u"]])))
            steps.append(draw(st.sampled_from([["e#", "", True], ["b", "#"], ["b", "#"], ["b", "-"], ["b", "+"]])))
        elif k <= 4:
            steps.append(["e", f, False])
        elif k <= 6:
            steps.append(["e", f, True])
        elif k == 7:
            steps.append(["e#", "", draw(st.booleans())])
        elif k <= 11:
            steps.append(["b", draw(st.sampled_from(["1", "2", "3", "4", "5", "9", "+", "-", "+", "-", "%", "#", "^", "4294967297", "4294967298", "65537"]))])
        elif k == 12:
            steps.append(["b", "!"])
        elif k == 13:
            steps.append(["b", "~"])
        elif k <= 17:
            steps.append(["ed", draw(st.sampled_from(["$a", "0a", "1d", "$d", "1s", "2a"])), "t%d" % i])
        elif k <= 19:
            steps.append(["mv", draw(st.sampled_from(["1", "2", "$", "3"]))])
        elif k == 20:
            steps.append(["u"])
        elif k <= 23:
            steps.append(["w"])
        else:
            steps.append(["b", draw(st.sampled_from(["+", "-"]))])
    if nf == 16 and draw(st.booleans()):
        # fill the whole 16-slot table first (forced edits keep a modified first buffer as the least recently used one):
        # the boundary at which look-ups and quit checks that stop one slot short go wrong
        pre = []
        if draw(st.booleans()):
            pre.append(["ed", "$a", "tfull"])
        pre += [["e", f, True] for f in FILES[1:16]]
        steps = pre + steps[:20]
    # a quarter of the histories end with autowrite set before the :q: every modified buffer is then written to ITS file and the editor exits
    return {"files": files, "steps": steps, "awq": draw(st.integers(0, 3)) == 0}


# ---- the same isolation through vi mode: the vi shortcuts (^^ zj zk zD), :e / :b typed at the vi prompt, vi edits, and the per-buffer
# cursor (line AND column), which only exists there
VTOK = ["tok", "a b", "xy z", "q"]


@st.composite
def vicase(draw):
    nf = draw(st.sampled_from([2, 3, 3, 4, 5]))
    files = {}
    for n in FILES[:nf]:
        if draw(st.integers(0, 4)):
            files[n] = ["%s.%d %s" % (n, i, draw(st.sampled_from(["", "alpha", "be ta", "  in"]))) for i in range(draw(st.integers(0, 5)))]
    steps = []
    for i in range(draw(st.integers(3, 30))):
        k = draw(st.integers(0, 27))
        f = draw(st.sampled_from(FILES[:nf]))
        if k >= 25:
            # round trip: move to a column, change the buffer, leave it unsaved, do something elsewhere, come back
            steps.append(["mv", "|", draw(st.integers(2, 9))])
            steps.append(draw(st.sampled_from([["ins", "o", "rt%d" % i], ["x"], ["dd"], ["put", "p"]])))
            if draw(st.booleans()):
                steps.append(["mv", draw(st.sampled_from(["w", "$", "k", "l"])), 0])
            steps.append(["e", f, True])
            if draw(st.booleans()):
                steps.append(draw(st.sampled_from([["ins", "A", "z%d" % i], ["mv", "G", 0], ["yy"], ["w"], ["u"]])))
            steps.append(draw(st.sampled_from([["e", FILES[0], True], ["b", "1"], ["e", f, True]])))
            steps.append(["e", draw(st.sampled_from(FILES[:nf])), True])
        elif k <= 3:
            steps.append(["e", f, draw(st.booleans())])
        elif k <= 6:
            steps.append(["alt"])
        elif k <= 8:
            steps.append(["z", draw(st.sampled_from("jkjkD"))])
        elif k == 9:
            steps.append(["b", draw(st.sampled_from(["1", "2", "3", "4"]))])
        elif k <= 12:
            steps.append(["ins", draw(st.sampled_from("oOAi")), "%s%d" % (draw(st.sampled_from(VTOK)), i)])
        elif k == 13:
            steps.append(["x"])
        elif k == 14:
            steps.append(["dd"])
        elif k == 15:
            steps.append(["yy"])
        elif k == 16:
            steps.append(["put", draw(st.sampled_from("pP"))])
        elif k <= 20:
            key = draw(st.sampled_from(["j", "k", "w", "b", "$", "0", "|", "G", "l", "h", "e"]))
            cnt = draw(st.integers(1, 12)) if key == "|" else draw(st.sampled_from([0, 0, 2, 3]))
            steps.append(["mv", key, 0 if key == "0" else cnt])
        elif k == 21:
            steps.append(["u"])
        else:
            steps.append(["w"])
    return {"kind": "vi", "files": files, "steps": steps}


# ---- split windows (^W s j k o c x): a window switch is a buffer switch run by the editor itself ("ew! <path of the other window>"), also
# on every full repaint of both windows.  The buffer order and the positions it leaves are not modelled; the invariant is the statement's:
# no switch changes the text or the dirty state of any buffer.  Every edit is preceded by an explicit :e! <path>, so the buffer it lands in
# is known whatever the windows did before.  Paths include ones an ex command line would interpret (space | " % # = +) and the unnamed buffer.
WFILES = ["f0", "f1", "a b", "c|q!", "\"x", "g#h", "=e", "+k", "p%q"]
WNOISE = ["\x17s", "\x17j", "\x17k", "\x17o", "\x17c", "\x17x", "\x17j", "\x17s", "\x0c", "\x1e", "zj", "zk", ":b 1\n", ":b 2\n", ":b 3\n", ":b +\n", ":b -\n", ":e #\n"]


def wquote(path):
    return "/" if path == "" else "".join(("\\" + ch) if ch in "\\|\"%#=+ \t" else ch for ch in path)


@st.composite
def wincase(draw):
    names = ["f0"] + draw(st.lists(st.sampled_from(WFILES[1:]), min_size=1, max_size=3, unique=True))
    files = {n: ["%s.%d" % (n[:1] if n[0].isalpha() else "o", i) for i in range(draw(st.integers(1, 4)))] for n in names}
    unnamed = draw(st.booleans())
    # (the unnamed buffer is only visited: a :w <file> typed in it would name it)
    paths = names
    steps = []
    for i in range(draw(st.integers(4, 30))):
        k = draw(st.integers(0, 9))
        if k <= 3:
            steps.append(["at", draw(st.sampled_from(paths)), draw(st.sampled_from(["app", "app", "pre", "del", "w", "none", "none"])), "t%d" % i])
        elif k == 4:
            steps.append(["noise", ":e %s\n" % wquote(draw(st.sampled_from(paths + [""])))])
        else:
            steps.append(["noise", draw(st.sampled_from(WNOISE))])
    return {"kind": "win", "files": files, "unnamed": unnamed, "steps": steps}


def strategy(tier):
    return st.one_of(case(), case(), vicase(), wincase())


class MBuf:
    def __init__(self, bid, path, lines):
        self.id = bid
        self.path = path
        self.ed = lined.Ed(lines)
        self.hist = [(list(lines), 0)]     # (text, state id)
        self.cur = 0
        self.nid = 1
        self.saved_id = 0

    def modified(self):
        return self.hist[self.cur][1] != self.saved_id


def T(b, o=()):
    return {"b": b, "o": list(o)}


class Model:
    def __init__(self, disk, first):
        self.disk = dict(disk)
        self.cnt = 0
        self.bufs = []
        self.open(first)
        self.msgs = []

    def open(self, path):
        self.cnt += 1
        b = MBuf(self.cnt, path, list(self.disk.get(path, [])))
        self.bufs.insert(0, b)
        return b

    def cur(self):
        return self.bufs[0]

    def switch(self, idx):
        b = self.bufs.pop(idx)
        self.bufs.insert(0, b)

    def find(self, path):
        for i, b in enumerate(self.bufs):
            if b.path == path:
                return i
        return -1

    def edit_cmd(self, path, force):
        if not force and self.cur().modified():
            return "refused"
        i = self.find(path)
        if i >= 0:
            self.switch(i)
        else:
            self.open(path)
        return "ok"

    def listing(self):
        al = "%#^"
        return [(b.id, al[i] if i < 3 else " ", b.path, b.modified()) for i, b in enumerate(self.bufs)]

    def step(self, s):
        k = s[0]
        c = self.cur()
        if k == "e":
            return self.edit_cmd(s[1], s[2])
        if k == "e#":
            if len(self.bufs) < 2:
                if not s[2] and c.modified():
                    return "refused"
                return "nopath"
            return self.edit_cmd(self.bufs[1].path, s[2])
        if k == "b":
            a = s[1]
            if a == "!":
                self.bufs.pop(0)
                if not self.bufs:
                    self.cnt += 1
                    self.bufs.append(MBuf(self.cnt, "", []))
                return "ok"
            if a == "~":
                for i, b in enumerate(self.bufs):
                    b.id = i + 1
                self.cnt = len(self.bufs)
                return "ok"
            idx = -1
            if a.isdigit():
                for i, b in enumerate(self.bufs):
                    if b.id == int(a):
                        idx = i
                        break
            elif a == "-":
                cands = [(b.id, i) for i, b in enumerate(self.bufs) if b.id < c.id]
                idx = max(cands)[1] if cands else -1
            elif a == "+":
                cands = [(b.id, i) for i, b in enumerate(self.bufs) if b.id > c.id]
                idx = min(cands)[1] if cands else -1
            else:
                idx = "%#^".index(a)
                if idx >= len(self.bufs):
                    idx = -1
            if idx < 0:
                return "nosuch"
            if c.modified():
                return "refused"
            self.switch(idx)
            return "ok"
        if k == "ed":
            op, tok = s[1], s[2]
            before = c.ed.text()
            if op == "$a":
                ret = c.ed.cmd({"c": "a", "a": [["", T(["$"])]]}) if not c.ed.__setattr__("blocks", [[tok]]) and not c.ed.__setattr__("blocks_used", 0) else 1
            elif op == "0a":
                c.ed.blocks, c.ed.blocks_used = [[tok]], 0
                ret = c.ed.cmd({"c": "a", "a": [["", T(["n", 0])]]})
            elif op == "2a":
                c.ed.blocks, c.ed.blocks_used = [[tok, tok + "b"]], 0
                ret = c.ed.cmd({"c": "a", "a": [["", T(["n", 2])]]})
            elif op == "1d":
                ret = c.ed.cmd({"c": "d", "a": [["", T(["n", 1])]], "r": ""})
            elif op == "$d":
                ret = c.ed.cmd({"c": "d", "a": [["", T(["$"])]], "r": ""})
            else:
                ret = c.ed.cmd({"c": "s", "a": [["", T(["n", 1])]], "pat": ["bol"], "repl": [["l", x] for x in tok], "g": False})
            if c.ed.text() != before:
                c.hist = c.hist[:c.cur + 1] + [(c.ed.text(), c.nid)]
                c.nid += 1
                c.cur += 1
            return "ok"
        if k == "mv":
            a = s[1]
            c.ed.cmd({"c": "k", "a": [["", T(["$"] if a == "$" else ["n", int(a)])]], "m": "z"})     # k does not move; emulate a bare address via p
            c.ed.out = []
            c.ed.cmd({"c": "p", "a": [["", T(["$"] if a == "$" else ["n", int(a)])]]})
            return "ok"
        if k == "u":
            if c.cur > 0:
                c.cur -= 1
                lines = c.hist[c.cur][0]
                xr = c.ed.xrow
                marks = None
                c.ed = lined.Ed(list(lines))
                c.ed.xrow = xr
            return "ok"
        if k == "w":
            if c.path == "":
                return "ok"
            self.disk[c.path] = c.ed.text()
            c.saved_id = c.hist[c.cur][1]
            return "ok"
        raise ValueError(k)


class VBuf:
    def __init__(self, bid, path, lines, tables, regs):
        from models import vim
        self.id = bid
        self.path = path
        self.vi = vim.ViEd(list(lines), 24, tables)
        self.vi.regs = regs
        self.hist = [(list(lines), 0)]
        self.cur = 0
        self.nid = 1
        self.saved_id = 0

    def modified(self):
        return self.hist[self.cur][1] != self.saved_id


class VModel(Model):
    """the buffer table of Model with a vi-mode editing model (models/vim.py) in every buffer; registers are shared"""

    def __init__(self, disk, first, tables):
        from models import vim
        self.tables = tables
        self.regs = vim.Regs()
        Model.__init__(self, disk, first)

    def open(self, path):
        self.cnt += 1
        b = VBuf(self.cnt, path, list(self.disk.get(path, [])), self.tables, self.regs)
        self.bufs.insert(0, b)
        return b

    def vstep(self, s):
        k = s[0]
        c = self.cur()
        v = c.vi
        if k == "e":
            r = self.edit_cmd(s[1], s[2])
        elif k == "alt":
            r = self.step(["e#", "", False])
        elif k == "z":
            r = self.step(["b", {"j": "+", "k": "-", "D": "!"}[s[1]]])
        elif k == "b":
            r = self.step(["b", s[1]])
        elif k in ("ins", "x", "dd", "yy", "put"):
            before = list(v.ln)
            # CAL: x with nothing under the cursor (empty line / empty buffer) still splices the line by itself: no text change, but an
            # undo step and a modified buffer
            noop_step = k == "x" and (not v.ln or v.ln[v.row] == "")
            if k == "ins":
                v.insert(s[1], s[2])
            elif k == "x":
                v.operator("d", "", 0, 0, " ") or v.wfix()
            elif k == "dd":
                v.operator("d", "", 0, 0, "same") or v.wfix()
            elif k == "yy":
                v.operator("y", "", 0, 0, "same") or v.wfix()
            else:
                v.put(s[1], "", 0)
            if v.ln != before or noop_step:
                c.hist = c.hist[:c.cur + 1] + [(list(v.ln), c.nid)]
                c.nid += 1
                c.cur += 1
            r = "ok"
        elif k == "mv":
            v.move(s[1], s[2], None)
            r = "ok"
        elif k == "u":
            if c.cur > 0:
                c.cur -= 1
                v.ln = list(c.hist[c.cur][0])
            v.move("G", 1)
            v.move("0")
            r = "ok"
        elif k == "w":
            self.disk[c.path] = list(v.ln)
            c.saved_id = c.hist[c.cur][1]
            r = "ok"
        else:
            raise ValueError(k)
        nv = self.cur().vi
        nv.wfix()
        nv.col = nv.off2col(nv.row, nv.off)
        return r


def vkeys(s):
    k = s[0]
    if k == "e":
        return ":e%s %s\n" % ("!" if s[2] else "", s[1])
    if k == "alt":
        return "\x1e"
    if k == "z":
        return "z" + s[1]
    if k == "b":
        return ":b %s\n" % s[1]
    if k == "ins":
        return s[1] + "\x05" + s[2] + "\x1b"
    if k in ("x", "dd", "yy"):
        return k
    if k == "put":
        return s[1]
    if k == "mv":
        return (str(s[2]) if s[2] else "") + s[1]
    if k == "u":
        return "u1G0"
    if k == "w":
        return ":w\n"
    raise ValueError(k)


_vt = {}


def run_vicase(env, c):
    from models import layout
    from . import viutil
    if "t" not in _vt:
        _vt["t"] = layout.Tables(env.paths["src"])
    d = env.fresh()
    for n, ls in c["files"].items():
        runner.write_file(d, n, gen.to_bytes(ls))
    pre = VModel(c["files"], "f0", _vt["t"])
    steps = []
    for s in c["steps"]:
        if s[0] == "z" and s[1] == "D" and len(pre.bufs) == 1:
            s = ["mv", "0", 0]          # deleting the last buffer leaves an unnamed one that the observer would name
        pre.vstep(s)
        steps.append(s)
    keys = [":se noaw\n:se nowa\n:se noai\n"]
    for i, s in enumerate(steps):
        keys.append(vkeys(s) + "\x1b:%%w! snap%d\n:1,.w! pos%d\n" % (i, i))
    # (an insert into an empty buffer first creates a line in a step of its own, which the single u would not take back)
    marker = bool(pre.cur().vi.ln)
    keys.append(("\x1b\x1bi\x05" + viutil.MARK + "\x1b:%w! final\nu" if marker else "\x1b\x1b") + ":q\n:%w! afterq\n")
    r = runner.run_editor(env.paths["vi"], ["-v", "f0"], "".join(keys).encode("utf-8") + runner.VI_TRAILER, d, rows=24, cols=100, want_stats=False)
    if r.timeout:
        return Outcome(True, False, ["vi", "timeout"], inconclusive=True)
    if r.crashed():
        return Outcome(False, False, ["vi", "crash"], detail={"why": "editor crashed", "sig": r.signature()})
    m = VModel(c["files"], "f0", _vt["t"])
    info = {"back_to_dirty": False, "shortcut": False, "left_dirty": set(), "col": False}

    def fail(why, i, **kw):
        det = {"why": why, "step": i, "steps": steps[:i + 1], "files": c["files"]}
        det.update(kw)
        return Outcome(False, False, ["vi"], detail=det)
    for i, s in enumerate(steps):
        prev = m.cur()
        m.vstep(s)
        if m.cur() is not prev:
            if prev.modified():
                info["left_dirty"].add(prev.path)
            if m.cur().path in info["left_dirty"] and m.cur().modified():
                info["back_to_dirty"] = True
            if s[0] in ("alt", "z"):
                info["shortcut"] = True
            if m.cur().vi.off > 0:
                info["col"] = True
        v = m.cur().vi
        snap = runner.read_file(d, "snap%d" % i)
        if snap != gen.to_bytes(v.ln):
            return fail("text of the buffer reached differs from the model", i, got=snap, want=gen.to_bytes(v.ln))
        pos = runner.read_file(d, "pos%d" % i)
        wantpos = gen.to_bytes(v.ln[:v.row + 1]) if v.ln else None
        if pos != wantpos:
            return fail("current line of the buffer reached differs from the model (line %d expected)" % (v.row + 1), i, got=pos, want=wantpos)
    v = m.cur().vi
    if marker:
        v.ai = False
        v.insert("i", viutil.MARK)
        fin = runner.read_file(d, "final")
        if fin != gen.to_bytes(v.ln):
            return fail("cursor column of the buffer reached differs from the model (marker inserted at the cursor)", len(steps), got=fin, want=gen.to_bytes(v.ln))
    # undo of the marker, then :q
    cb = m.cur()
    v.ln = list(cb.hist[cb.cur][0])
    dirty = [b for b in m.bufs if b.modified()]
    aq = runner.read_file(d, "afterq")
    if bool(dirty) != (aq is not None):
        return fail(":q %s although %d buffer(s) are modified" % ("refused" if aq is not None else "exited", len(dirty)), len(steps))
    if dirty:
        first = next(b for b in m.bufs if b.modified())
        if aq != gen.to_bytes(first.vi.ln):
            return fail(":q refused but the current buffer is not the first modified one", len(steps), got=aq, want=gen.to_bytes(first.vi.ln))
    nt = len(m.bufs) >= 2 and info["back_to_dirty"] and info["shortcut"]
    return Outcome(True, nt, ["vi", "vi_nbuf_%d" % min(len(m.bufs), 5)] + [("vi_" + k) for k in ("back_to_dirty", "shortcut", "col") if info[k]])


def run_wincase(env, c):
    d = env.fresh()
    for n, ls in c["files"].items():
        runner.write_file(d, n, gen.to_bytes(ls))
    disk = {n: list(ls) for n, ls in c["files"].items()}
    bufs = {}           # path -> [lines, dirty] for every buffer that was entered explicitly; any other open buffer is clean = its file
    keys = [":se noaw\n:se nowa\n:se noai\n"]
    want = []
    split = switched = False
    dirty_at_switch = False
    for i, s in enumerate(c["steps"]):
        if s[0] == "noise":
            keys.append(s[1] + "\x1b")
            if s[1] == "\x17s":
                split = True
            elif s[1].startswith("\x17") and split:
                switched = True
                dirty_at_switch = dirty_at_switch or any(b[1] for b in bufs.values())
            continue
        p, op, tok = s[1], s[2], s[3]
        b = bufs.setdefault(p, [list(disk.get(p, [])), False])
        k = ":e! %s\n" % wquote(p)
        if op == "del" and not b[0]:
            op = "app"
        if op in ("app", "pre") and not b[0]:
            # (o / O in an empty buffer first make an empty line: i types the first line itself)
            k += "i\x05" + tok + "\x1b"
            b[0].append(tok)
            b[1] = True
        elif op == "app":
            k += "Go\x05" + tok + "\x1b"
            b[0].append(tok)
            b[1] = True
        elif op == "pre":
            k += "1GO\x05" + tok + "\x1b"
            b[0].insert(0, tok)
            b[1] = True
        elif op == "del":
            k += "1Gdd"
            del b[0][0]
            b[1] = True
        elif op == "w":
            k += ":w\n"
            disk[p] = list(b[0])
            b[1] = False
        keys.append(k + "\x1b:%%w! snap%d\n" % i)
        want.append((i, p, list(b[0])))
    allp = list(c["files"])
    for j, p in enumerate(allp):
        keys.append("\x1b:e! %s\n:%%w! dump%d\n" % (wquote(p), j))
    keys.append("\x1b:q\n:%w! afterq\n")
    r = runner.run_editor(env.paths["vi"], ["-v"] + ([] if c["unnamed"] else ["f0"]), "".join(keys).encode("utf-8") + runner.VI_TRAILER, d, rows=24, cols=100,
                          want_stats=False)
    if r.timeout:
        return Outcome(True, False, ["win", "timeout"], inconclusive=True)
    if r.crashed():
        return Outcome(False, False, ["win", "crash"], detail={"why": "editor crashed", "sig": r.signature()})

    def fail(why, **kw):
        det = {"why": why, "steps": c["steps"], "files": c["files"], "unnamed": c["unnamed"]}
        det.update(kw)
        return Outcome(False, False, ["win"], detail=det)

    def text(p):
        return bufs[p][0] if p in bufs else disk.get(p, [])
    for i, p, ls in want:
        snap = runner.read_file(d, "snap%d" % i)
        if (snap or b"") != gen.to_bytes(ls):
            return fail("text of buffer %r after the edit of step %d differs from what was typed into it" % (p, i), step=i, got=snap, want=gen.to_bytes(ls))
    for n in c["files"]:
        if runner.read_file(d, n) != gen.to_bytes(disk[n]):
            return fail("file %r on disk is not what :w last wrote from its buffer" % n, got=runner.read_file(d, n), want=gen.to_bytes(disk[n]))
    extra = sorted(set(runner.list_files(d)) - set(c["files"]) - {"afterq"} - {"snap%d" % i for i in range(len(c["steps"]))} - {"dump%d" % j for j in range(len(allp))})
    if extra:
        return fail("a file that no command named appeared: %r" % extra[:3])
    for j, p in enumerate(allp):
        dump = runner.read_file(d, "dump%d" % j)
        if (dump or b"") != gen.to_bytes(text(p)):
            return fail("text of buffer %r at the end differs from what was typed into it" % p, got=dump, want=gen.to_bytes(text(p)))
    dirty = [p for p in bufs if bufs[p][1]]
    aq = runner.read_file(d, "afterq")
    if not dirty and aq is not None:
        return fail(":q refused although no buffer is modified", got=aq)
    if dirty and aq is None and any(text(p) for p in dirty):
        return fail(":q exited although buffer(s) %r are modified" % dirty)
    if dirty and aq is not None and aq not in [gen.to_bytes(text(p)) for p in dirty]:
        return fail(":q refused but the buffer it switched to is not a modified one", got=aq)
    odd = any(n in c["files"] for n in WFILES[2:])
    nt = split and switched and dirty_at_switch
    return Outcome(True, nt, ["win"] + [k for k, v in (("win_split", split), ("win_switch", switched), ("win_dirty_switch", dirty_at_switch), ("win_odd_name", odd),
                                                           ("win_unnamed", c["unnamed"])) if v])


def cmd_text(s):
    k = s[0]
    if k == "e":
        return "e%s %s" % ("!" if s[2] else "", s[1])
    if k == "e#":
        return "e%s #" % ("!" if s[2] else "")
    if k == "b":
        return "b " + s[1]
    if k == "ed":
        op, tok = s[1], s[2]
        if op in ("$a", "0a"):
            return "%s\n%s\n." % (op, tok)
        if op == "2a":
            return "2a\n%s\n%sb\n." % (tok, tok)
        if op in ("1d", "$d"):
            return op
        return "1s/^/%s/" % tok
    if k == "mv":
        return s[1] + "p"
    if k == "u":
        return "u"
    if k == "w":
        return "w"


def run_case(env, c):
    if c.get("kind") == "win":
        return run_wincase(env, c)
    if c.get("kind") == "vi":
        return run_vicase(env, c)
    d = env.fresh()
    for n, ls in c["files"].items():
        runner.write_file(d, n, gen.to_bytes(ls))
    # pre-pass: a :b ! that would delete the last buffer leaves an unnamed buffer, which the observer's ":w! snapN" would
    # name and later writes would overwrite; such steps are replaced by a no-op (counted)
    pre = Model(c["files"], "f0")
    steps = []
    skipped = 0
    for s in c["steps"]:
        if s[0] == "b" and s[1] == "!" and len(pre.bufs) == 1:
            s = ["mv", "1"]
            skipped += 1
        if s[0] == "ed" and s[1] == "$a":
            pre.step(["ed", "0a", s[2]])
        else:
            pre.step(s)
        steps.append(s)
    c = dict(c, steps=steps)
    script = ["se noaw\nse nowa\n"]
    for i, s in enumerate(c["steps"]):
        script.append("%s\nec @@B%d@@\nb\nec @@C%d@@\n.=\nec @@D%d@@\n%%w! snap%d\n" % (cmd_text(s), i, i, i, i))
    script.append(("se aw\n" if c.get("awq") else "") + "q\nec @@ALIVE@@\nb\nec @@E@@\n")
    r = runner.run_editor(env.paths["vi"], ["-s", "-e", "f0"], "".join(script).encode() + runner.EX_TRAILER, d, want_stats=False)
    if r.timeout:
        return Outcome(True, False, ["timeout"], inconclusive=True)
    if r.crashed():
        return Outcome(False, False, ["crash"], detail={"why": "editor crashed", "sig": r.signature()})
    out = r.out.decode("utf-8", "replace")
    m = Model(c["files"], "f0")
    info = {"back_to_dirty": False, "alias": False, "left_dirty": set()}

    def fail(why, i, **kw):
        det = {"why": why, "step": i, "steps": c["steps"][:i + 1], "files": c["files"]}
        det.update(kw)
        return Outcome(False, False, [], detail=det)
    for i, s in enumerate(c["steps"]):
        if s[0] == "ed" and s[1] == "$a":
            m.cur().ed.blocks, m.cur().ed.blocks_used = [[s[2]]], 0
            before = m.cur().ed.text()
            m.cur().ed.cmd({"c": "a", "a": [["", T(["$"])]]})
            cb = m.cur()
            if cb.ed.text() != before:
                cb.hist = cb.hist[:cb.cur + 1] + [(cb.ed.text(), cb.nid)]
                cb.nid += 1
                cb.cur += 1
        else:
            prev = m.cur()
            res = m.step(s)
            if s[0] in ("e", "e#", "b") and m.cur() is not prev:
                if prev.modified():
                    info["left_dirty"].add(prev.path)
                if m.cur().path in info["left_dirty"] and m.cur().modified():
                    info["back_to_dirty"] = True
                if s[0] == "e#" or (s[0] == "b" and s[1] in "+-%#^"):
                    info["alias"] = True
        pending_rename = m.cur().path == ""
        mm = re.search(r"@@B%d@@(.*?)@@C%d@@(.*?)@@D%d@@" % (i, i, i), out, re.S)
        if not mm:
            return fail("sentinels of step %d missing" % i, i)
        rows = parse_list(mm.group(1))
        want = m.listing()
        if rows != want:
            return fail("buffer list differs from the model", i, got=rows, want=want)
        snap = runner.read_file(d, "snap%d" % i)
        if snap != gen.to_bytes(m.cur().ed.text()):
            return fail("text of the buffer reached differs from the model", i, got=snap, want=gen.to_bytes(m.cur().ed.text()))
        ed = m.cur().ed
        try:
            _, e = ed.region([["", T(["."])]])
            wdot = "%d\n" % e
        except lined.Fail:
            wdot = ""
        if mm.group(2) != wdot:
            return fail("current line of the buffer reached differs from the model", i, got=mm.group(2), want=wdot)
        if pending_rename:
            # the observer's "%w! snapN" gives an unnamed buffer that name and marks it saved (documented :w behaviour)
            cb = m.cur()
            cb.path = "snap%d" % i
            cb.saved_id = cb.hist[cb.cur][1]
            m.disk[cb.path] = cb.ed.text()
    alive = "@@ALIVE@@" in out
    dirty = [b for b in m.bufs if b.modified()]
    if c.get("awq"):
        if alive:
            return fail(":q with autowrite set did not exit (%d modified buffers)" % len(dirty), len(c["steps"]))
        for b in dirty:
            m.disk[b.path] = b.ed.text()
        for path, ls in m.disk.items():
            got = runner.read_file(d, path)
            if got != gen.to_bytes(ls):
                return fail("after :q with autowrite the file %r does not hold %s" % (path, "the text of its modified buffer" if any(b.path == path for b in dirty) else "what it held before"),
                            len(c["steps"]), got=got, want=gen.to_bytes(ls))
        nt = len(m.bufs) >= 3 and len(dirty) >= 1 and any(b is not m.cur() for b in dirty)
        return Outcome(True, nt, ["awq", "awq_dirty_%d" % min(len(dirty), 3)] + (["awq_noncurrent_dirty"] if any(b is not m.cur() for b in dirty) else []))
    if bool(dirty) != alive:
        return fail(":q %s although %d buffer(s) are modified" % ("refused" if alive else "exited", len(dirty)), len(c["steps"]))
    if alive:
        mm = re.search(r"@@ALIVE@@(.*?)@@E@@", out, re.S)
        rows = parse_list(mm.group(1)) if mm else []
        first = next(i for i, b in enumerate(m.bufs) if b.modified())
        m.switch(first)
        if rows != m.listing():
            return fail(":q refused but the buffer list is not the model's (first modified buffer made current)", len(c["steps"]), got=rows, want=m.listing())
    nt = len(m.bufs) >= 3 and info["back_to_dirty"] and info["alias"]
    return Outcome(True, nt, ["nbuf_%d" % min(len(m.bufs), 5)] + (["back_to_dirty"] if info["back_to_dirty"] else []) + (["alias"] if info["alias"] else []))
