"""C06 - ex line commands change exactly the addressed lines (reference line editor)."""
import re

from hypothesis import strategies as st

from engine.core import Outcome
from engine import runner
from models import lined
from . import gen, exgen

ID = "C06"
LEVEL = "exploration"
RULE = ("Hypothesis: scripts of 1-25 ex line commands (a i c d y pu r p = k ! rs @ ra, bare address, | lists) with addresses from the full grammar "
        "(numbers incl. 0 and out of range, . $ % 'x /re/ ?re? offsets , ;) over buffers of 0-12 lines with unique tokens (plus duplicates for "
        "pattern addresses), marks and registers; after every command the buffer (written to a file), the command's stdout and the current "
        "line (.=) are compared with the reference line editor.  Non-trivial = script with >=1 rejected address, >=1 two-address range with an "
        "offset or pattern, and >=1 use of a mark after an edit above it; distinct by SHA-1 of the case")
ASSUMPTIONS = ["reference line editor models/lined.py with its documented calibrations (N,Ma appends after the first address; after :$d the current "
               "line is one past the end; a bare + or - adds nothing; filters are refused on a modified buffer unless wa; pu/r are rejected on an "
               "empty buffer)", "register execution only of registers last set by :rs with bodies free of a/i/c and @"]

WORDS = exgen.WORDS
FILTERS = {"tr a-z A-Z": lambda ls: [l.upper() if l.isascii() else "".join(ch.upper() if ch.isascii() else ch for ch in l) for l in ls],
           "sort": lambda ls: sorted(ls, key=lambda s: s.encode("utf-8")), "rev": lambda ls: [l[::-1] for l in ls],
           "sed s/$/X/": lambda ls: [l + "X" for l in ls], "cat": lambda ls: list(ls),
           # output without a final newline / a single unterminated line / no output at all
           "tr -d '[:space:]'": lambda ls: ([x for x in ["".join("".join(l.split()) for l in ls)] if x]), "printf x": lambda ls: ["x"],
           "head -c 3": lambda ls: _split("".join(l + "\n" for l in ls)[:3]),
           "true": lambda ls: []}


def _split(text):
    ls = text.split("\n")
    if ls[-1] == "":
        ls.pop()
    return ls


# files read by :r: terminated, last line unterminated, a single unterminated line, empty
AUX = {"aux": "aux1\naux2\n", "auxn": "n1\nn2\nn3", "aux1": "single", "auxe": ""}


def prepare(build, tier):
    return {"vi": build.vi_plain()}


def budget(tier):
    return (900, 16) if tier == "quick" else (15000, 16)


def term(b, o=()):
    return {"b": b, "o": list(o)}


offs = st.lists(st.sampled_from(["+1", "-1", "+2", "-2", "+", "-", "+5", "-9", "+1", "-1", "+4294967296", "-4294967297"]), max_size=2)
base = st.one_of(
    st.integers(0, 14).map(lambda k: ["n", k]), st.sampled_from([0, 1, 2, 3]).map(lambda k: ["n", k]), st.just(["."]), st.just(["$"]),
    # numbers beyond every buffer, beyond 2^31 and 2^32: out of range, never wrapped around
    st.sampled_from([65536, 2147483648, 4294967297, 4294967298, 99999999999]).map(lambda k: ["n", k]),
    st.sampled_from("abq").map(lambda c: ["m", c]), st.sampled_from("ab").map(lambda c: ["m", c]), st.sampled_from("ab").map(lambda c: ["m", c]),
    st.sampled_from(WORDS + ["l1", "l3", "zzz"]).map(lambda w: ["/", ["lit", w]]), st.sampled_from(WORDS + ["l2", "zzz"]).map(lambda w: ["?", ["lit", w]]),
    st.just([""]),
)
aterm = st.tuples(base, offs).map(lambda t: term(t[0], t[1] if t[0] != [""] or t[1] else ["+1"]))


@st.composite
def addr(draw):
    k = draw(st.integers(0, 9))
    if k <= 1:
        return []
    if k <= 4:
        return [["", draw(aterm)]]
    if k == 5:
        return [["", term(["%"])]]
    al = [["", draw(aterm)], [draw(st.sampled_from([",", ",", ";"])), draw(aterm)]]
    if k == 9:
        al.append([draw(st.sampled_from([",", ";"])), draw(aterm)])
    return al


@st.composite
def simple(draw, tok):
    """a command without text block"""
    k = draw(st.integers(0, 11))
    a = draw(addr())
    if k <= 1:
        return {"c": "d", "a": a, "r": draw(st.sampled_from(["", "a", "b", "A", "c"]))}
    if k == 2:
        return {"c": "y", "a": a, "r": draw(st.sampled_from(["", "a", "b", "B", "c"]))}
    if k <= 4:
        return {"c": "pu", "a": a, "r": draw(st.sampled_from(["", "a", "b", "c", "1", "2", "3", "z"]))}
    if k <= 6:
        return {"c": "p", "a": a}
    if k == 7:
        return {"c": "=", "a": a}
    if k == 8 or (k == 6 and draw(st.booleans())):
        return {"c": "k", "a": a, "m": draw(st.sampled_from("ab"))}
    if k == 9:
        return {"c": "", "a": a if a else [["", term(["n", draw(st.integers(0, 9))])]]}
    if k == 10:
        return {"c": "r", "a": a, "path": draw(st.sampled_from(["aux", "auxn", "aux1", "auxe", "nofile"]))}
    sh = draw(st.sampled_from(sorted(FILTERS)))
    return {"c": "!", "a": a if a else [["", term(["."])]], "sh": sh}


@st.composite
def command(draw, i):
    k = draw(st.integers(0, 15))
    tok = "t%d" % i
    if k <= 3:
        n = draw(st.integers(0, 3))
        return {"c": draw(st.sampled_from(["a", "i", "c"])), "a": draw(addr()), "blk": ["%s.%d" % (tok, j) for j in range(n)]}
    if k == 4:
        body = draw(st.lists(simple(tok).filter(lambda b: exgen.cmd_text(b) != "."), min_size=1, max_size=2))
        return {"c": "rs", "r": draw(st.sampled_from(["x", "y"])), "body": body}
    if k == 5:
        return {"c": draw(st.sampled_from(["@", "ra"])), "a": draw(addr()), "r": draw(st.sampled_from(["x", "y", "x", "w"]))}
    if k == 6:
        cs = draw(st.lists(simple(tok), min_size=2, max_size=3))
        for j, x in enumerate(cs[:-1]):
            if x["c"] == "!":            # :! takes the rest of the line, '|' included
                cs[j] = {"c": "p", "a": x["a"]}
        return {"c": "list", "cmds": cs}
    return draw(simple(tok))


@st.composite
def case(draw):
    n = draw(st.integers(0, 12))
    lines = ["l%d %s" % (i, draw(st.sampled_from(WORDS))) for i in range(n)]
    if n >= 3 and draw(st.booleans()):
        lines[draw(st.integers(0, n - 1))] = lines[draw(st.integers(0, n - 1))]      # a duplicate line
    cmds = [draw(command(i)) for i in range(draw(st.integers(1, 25)))]
    if n >= 3 and draw(st.integers(0, 2)) == 0:
        # mark phrase: set a mark on line N, change the number of lines above it, then use the mark
        m = draw(st.sampled_from("ab"))
        N = draw(st.integers(2, n))
        up = draw(st.integers(1, N - 1))
        edit = draw(st.sampled_from([
            {"c": "d", "a": [["", term(["n", up])]], "r": ""},
            {"c": "d", "a": [["", term(["n", 1])], [",", term(["n", up])]], "r": "a"},
            {"c": "a", "a": [["", term(["n", up - 1])]], "blk": ["mk.0", "mk.1"]},
            {"c": "i", "a": [["", term(["n", up])]], "blk": ["mk.2"]},
            {"c": "c", "a": [["", term(["n", up])]], "blk": ["mk.3", "mk.4", "mk.5"]},
            {"c": "c", "a": [["", term(["n", up])]], "blk": []},
            {"c": "pu", "a": [["", term(["n", up - 1])]], "r": ""},
        ]))
        use = draw(st.sampled_from([
            {"c": "p", "a": [["", term(["m", m])]]},
            {"c": "=", "a": [["", term(["m", m])]]},
            {"c": "d", "a": [["", term(["m", m])]], "r": ""},
            {"c": "p", "a": [["", term(["m", m], ["-1"])], [",", term(["m", m], ["+1"])]]},
            {"c": "a", "a": [["", term(["m", m])]], "blk": ["mk.9"]},
            {"c": "p", "a": [["", term(["n", 1])], [";", term(["m", m])]]},
        ]))
        at = draw(st.integers(0, len(cmds)))
        cmds[at:at] = [{"c": "k", "a": [["", term(["n", N])]], "m": m}, edit, use]
    return {"lines": lines, "cmds": cmds, "wa": draw(st.booleans())}


@st.composite
def bigfilter(draw):
    """a filter whose input is larger than a pipe takes at once (64 KiB): the text must reach the command complete and in order"""
    n = draw(st.sampled_from([1800, 1872, 1873, 1900, 2500, 4000, 20000]))
    a = draw(st.sampled_from([1, 2, 5]))
    b = draw(st.sampled_from([0, 1, 3]))         # lines left out at the end
    return {"kind": "bigfilter", "n": n, "a": a, "b": b, "sh": draw(st.sampled_from(["cat", "cat", "tail -n 1", "head -n 3", "wc -l"])),
            "w": draw(st.sampled_from([35, 35, 8, 120]))}


def strategy(tier):
    return st.one_of(*([case()] * 30 + [bigfilter()]))


def run_bigfilter(env, c):
    d = env.fresh()
    lines = [("line %06d " % i).ljust(c["w"] - 1, "abcdefghij"[i % 10]) for i in range(c["n"])]
    runner.write_file(d, "f", gen.to_bytes(lines))
    lo, hi = c["a"], c["n"] - c["b"]
    script = "se wa\n%d,%d!%s\nw! out\n" % (lo, hi, c["sh"])
    r = runner.run_editor(env.paths["vi"], ["-s", "-e", "f"], script.encode() + runner.EX_TRAILER, d, want_stats=False)
    if r.timeout:
        return Outcome(True, False, ["bigfilter", "timeout"], inconclusive=True)
    if r.crashed():
        return Outcome(False, True, ["bigfilter"], detail={"why": "editor crashed", "sig": r.signature()})
    sel = lines[lo - 1:hi]
    res = {"cat": sel, "tail -n 1": sel[-1:], "head -n 3": sel[:3], "wc -l": [str(len(sel))]}[c["sh"]]
    want = gen.to_bytes(lines[:lo - 1] + res + lines[hi:])
    got = runner.read_file(d, "out")
    if got != want:
        gl = (got or b"").split(b"\n")
        wl = want.split(b"\n")
        k = next((i for i in range(min(len(gl), len(wl))) if gl[i] != wl[i]), min(len(gl), len(wl)))
        return Outcome(False, True, ["bigfilter"], detail={"why": "the filter did not receive / return exactly the addressed lines (input of %d bytes)" % sum(len(x) + 1 for x in sel),
                                                          "case": c, "first_different_line": k, "got": gl[k][:60] if k < len(gl) else None, "want": wl[k][:60] if k < len(wl) else None})
    return Outcome(True, True, ["bigfilter", "input_gt_64k" if sum(len(x) + 1 for x in sel) > 65536 else "input_le_64k"])


# ------------------------------------------------------------------ model execution with the extra commands of this check
def model_run(c):
    """returns list of (stdout, text, dotline or None) per command, and info"""
    ed = lined.Ed(list(c["lines"]))
    ed.wa = c["wa"]
    bodies = {}
    res = []
    info = {"rejected": 0, "range2": 0, "mark_after_edit_above": 0, "mark_identity_broken": None}
    mark_ids = {}

    def note_addr(al):
        if len(al) >= 2 and any(t["o"] or t["b"][0] in "/?" for _, t in al):
            info["range2"] += 1

    def mark_uses(al):
        return [t["b"][1] for _, t in al if t["b"][0] == "m"]

    def run(cmd):
        k = cmd["c"]
        al = cmd.get("a", [])
        note_addr(al)
        for m in mark_uses(al):
            if m in ed.marks and m in mark_ids:
                lid, setlen_above = mark_ids[m]
                if lid in ed.ln:
                    if ed.ln.index(lid) != setlen_above:
                        info["mark_after_edit_above"] += 1
                    if ed.ln[ed.marks[m]] != lid and info["mark_identity_broken"] is None:
                        info["mark_identity_broken"] = m
        if k == "rs":
            bodies[cmd["r"]] = cmd["body"]
            ed.reg_put(cmd["r"], "".join(exgen.cmd_text(b) + "\n" for b in cmd["body"]), 1)
            return 0
        if k in ("@", "ra"):
            if ed.reg_get(cmd["r"]) is None:
                return 1
            try:
                beg, end = ed.region(al)
            except lined.Fail:
                return 1
            ed.xrow = beg
            ret = 0
            for b in bodies[cmd["r"]]:
                ret = run(b)
            return ret
        if k == "list":
            ret = 0
            for b in cmd["cmds"]:
                ret = run(b)
            return ret
        if k in ("a", "i", "c"):
            ed.blocks = [cmd["blk"]]
            ed.blocks_used = 0
        if k == "!":
            cmd = dict(cmd, fn=FILTERS[cmd["sh"]])
        if k == "r":
            cmd = dict(cmd, content=AUX.get(cmd["path"]))
        before = list(ed.ln)
        ret = ed.cmd(cmd)
        if ret:
            info["rejected"] += 1
        if ed.touched:
            ed.modified = True
        if k == "k" and not ret and cmd["m"] in ed.marks:
            mark_ids[cmd["m"]] = (ed.ln[ed.marks[cmd["m"]]], ed.marks[cmd["m"]])
        return ret

    for cmd in c["cmds"]:
        ed.out = []
        ed.touched = False
        run(cmd)
        out = "".join(ed.out)
        try:
            _, e = ed.region([["", term(["."])]])
            dot = e
        except lined.Fail:
            dot = None
        res.append((out, ed.text(), dot))
    return res, info


def script_of(c):
    s = ["se noic\n", "se wa\n" if c["wa"] else "se nowa\n"]
    for i, cmd in enumerate(c["cmds"]):
        k = cmd["c"]
        if k == "rs":
            s.append("rs %s\n" % cmd["r"] + "".join(exgen.cmd_text(b) + "\n" for b in cmd["body"]) + ".\n")
        elif k in ("@", "ra"):
            s.append(lined.addr_text(cmd.get("a", []), gen.delim_escape) + k + " " + cmd["r"] + "\n")
        elif k in ("a", "i", "c"):
            s.append(exgen.cmd_text(cmd) + "\n" + "".join(l + "\n" for l in cmd["blk"]) + ".\n")
        else:
            s.append(exgen.cmd_text(cmd) + "\n")
        s.append("ec @@A%d@@\n.=\nec @@B%d@@\n%%w! s%d\n" % (i, i, i))
    return "".join(s)


WMSG = re.compile(r'^"s\d+"  \[=\d+\]  \[w\]')


def extra(env, tier, seed):
    """text typed for a / i / c reaches the buffer byte for byte: every byte value except NUL and newline, inside a line and alone on it"""
    out = []
    n = 0
    fails = []
    for cmd in ("a", "i", "c"):
        c = {"kind": "bytes", "cmd": cmd}
        o = run_bytes(env, c)
        n += 2 * 254
        if not o.ok and not o.inconclusive:
            fails.append({"case": c})
    out.append({"name": "typed_text_is_byte_transparent", "exhaustive": True, "evaluations": n, "distinct_nontrivial": n,
                "space": "commands a i c x byte values 1..255 except newline x {inside a line, alone on a line}",
                "samples": ["2a / X\\xffY / \\xff / . : both lines arrive unchanged, the lines around them keep their bytes"], "violations": fails})
    return out


def run_bytes(env, c):
    d = env.fresh()
    runner.write_file(d, "f", b"one\ntwo\nthree\n")
    vals = [b for b in range(1, 256) if b != 10]
    blk = []
    for b in vals:
        blk.append(b"X" + bytes([b]) + b"Y")
        if b != 0x2e:       # (a line with only a dot ends the text)
            blk.append(bytes([b]))
    script = b"2" + c["cmd"].encode() + b"\n" + b"".join(l + b"\n" for l in blk) + b".\nw! out\n"
    r = runner.run_editor(env.paths["vi"], ["-s", "-e", "f"], script + runner.EX_TRAILER, d)
    if r.timeout:
        return Outcome(True, False, ["bytes", "timeout"], inconclusive=True)
    if r.crashed():
        return Outcome(False, True, ["bytes"], detail={"why": "editor crashed", "sig": r.signature(), "cmd": c["cmd"]})
    want = {"a": [b"one", b"two"] + blk + [b"three"], "i": [b"one"] + blk + [b"two", b"three"], "c": [b"one"] + blk + [b"three"]}[c["cmd"]]
    got = runner.read_file(d, "out")
    if got != b"".join(l + b"\n" for l in want):
        gl = (got or b"").split(b"\n")
        k = next((i for i in range(len(want)) if i >= len(gl) or gl[i] != want[i]), len(want))
        return Outcome(False, True, ["bytes"], detail={"why": "text typed for 2%s did not arrive byte for byte: line %d of the result is %r, expected %r" %
                                                      (c["cmd"], k + 1, gl[k] if k < len(gl) else None, want[k] if k < len(want) else None), "cmd": c["cmd"]})
    return Outcome(True, True, ["bytes"])


def run_case(env, c):
    if c.get("kind") == "bigfilter":
        return run_bigfilter(env, c)
    if c.get("kind") == "bytes":
        return run_bytes(env, c)
    d = env.fresh()
    runner.write_file(d, "f", gen.to_bytes(c["lines"]))
    for k, v in AUX.items():
        runner.write_file(d, k, v.encode())
    try:
        want, info = model_run(c)
    except RecursionError:
        return Outcome(True, False, ["excluded_model_recursion"])
    script = script_of(c)
    r = runner.run_editor(env.paths["vi"], ["-s", "-e", "f"], script.encode("utf-8") + runner.EX_TRAILER, d)
    nt = info["rejected"] >= 1 and info["range2"] >= 1 and info["mark_after_edit_above"] >= 1
    cl = (["rejected_addr"] if info["rejected"] else []) + (["range_with_offset_or_pattern"] if info["range2"] else []) + \
        (["mark_after_edit_above"] if info["mark_after_edit_above"] else []) + ["empty_buffer" if not c["lines"] else "nonempty"]
    if r.timeout:
        return Outcome(True, False, cl + ["timeout"], inconclusive=True)
    if r.crashed():
        return Outcome(False, nt, cl, detail={"why": "editor crashed", "sig": r.signature(), "script": script})
    out = r.out.decode("utf-8", "replace")
    # split stdout at the sentinels
    segs = re.split(r"@@([AB])(\d+)@@", out)
    # segs: [pre, 'A', '0', between, 'B', '0', after, 'A', '1', ...]
    cmd_out, dot_out = {}, {}
    prev = segs[0]
    j = 1
    while j + 2 < len(segs) + 1 and j < len(segs):
        kind, idx, nxt = segs[j], int(segs[j + 1]), segs[j + 2] if j + 2 < len(segs) else ""
        if kind == "A":
            cmd_out[idx] = prev
            prev = nxt
        else:
            dot_out[idx] = prev
            prev = nxt
        j += 3
    first_msg = '"f"  [=%d]  [r]' % len(c["lines"])
    for i, (wout, wtext, wdot) in enumerate(want):
        got = cmd_out.get(i)
        if got is None:
            return Outcome(False, nt, cl, detail={"why": "sentinel %d missing in stdout" % i, "script": script, "stdout": out[-400:]})
        if i == 0 and got.startswith(first_msg):
            got = got[len(first_msg):]
        got = WMSG.sub("", got)
        if got != wout:
            return Outcome(False, nt, cl, detail={"why": "stdout of command %d differs" % i, "cmd": c["cmds"][i], "got": got, "want": wout, "script": script,
                                                 "lines": c["lines"]})
        txt = runner.read_file(d, "s%d" % i)
        if txt != gen.to_bytes(wtext):
            return Outcome(False, nt, cl, detail={"why": "buffer after command %d differs" % i, "cmd": c["cmds"][i], "got": txt, "want": gen.to_bytes(wtext),
                                                 "script": script, "lines": c["lines"]})
        gdot = dot_out.get(i, "")
        if gdot != ("" if wdot is None else "%d\n" % wdot):
            return Outcome(False, nt, cl, detail={"why": "current line after command %d differs" % i, "cmd": c["cmds"][i], "got": gdot, "want": wdot,
                                                 "script": script, "lines": c["lines"]})
    if info["mark_identity_broken"]:
        return Outcome(False, nt, cl, detail={"why": "mark '%s' no longer designates the line it was set on although that line still exists" % info["mark_identity_broken"],
                                             "script": script})
    return Outcome(True, nt, cl)
