"""C11 - any pattern string is safely rejected or compiled; matching stays in bounds."""
import glob
import itertools
import multiprocessing
import os
import re
import shutil
import subprocess

from hypothesis import strategies as st

from engine.core import Outcome
from engine import probe, runner
from engine import build as buildmod
from models import rxgen

ID = "C11"
LEVEL = "exploration"
RULE = ("(a) exhaustive: every string of <=4 (quick) / <=5 (thorough) characters over the 19-character alphabet ( ) [ ] { } * + ? | \\ ^ $ . - , : a 1, "
        "each compiled by rset_make and rstr_make (ICASE off/on) and matched against a family of 8 lines under the 4 NOTBOL/NOTEOL "
        "combinations with the offsets validated in the ASan probe; (b) Hypothesis byte strings over 1..255 up to 300 bytes with boosted "
        "metacharacters, huge/inverted/empty bounds, >64 groups, >128 repetitions; (a') size-parameter sweep: 16 pattern families (groups in "
        "sequence / nested / alternated / repeated, repetition bounds, bracket sizes, literal lengths) at EVERY size 1..150 (quick) / 1..400 "
        "(thorough) with a line the whole pattern matches; (c) coverage-guided libFuzzer campaign (fuzz_rx.c, "
        "semantic oracle inside the target).  Non-trivial = pattern compiled AND contains a construct the reference parser calls malformed, "
        "or was rejected; for (a) every pattern with a metacharacter counts; distinct by the pattern string")
ASSUMPTIONS = ["lines are valid UTF-8 and newline terminated; patterns are arbitrary NUL-free byte strings",
               "patterns that the independent analysis (models/rxgen.explosive, fuzz_rx.c risky()) finds exponentially ambiguous are excluded and "
               "counted: terminating-but-astronomical backtracking is known finding F22, not re-judged here",
               "entry points are rset_make/rstr_make as in the editor (regcomp on a pattern ending in a lone backslash is unreachable through them)"]

ALPHA19 = ["(", ")", "[", "]", "{", "}", "*", "+", "?", "|", "\\", "^", "$", ".", "-", ",", ":", "a", "1"]
LINES = [b"\n", b"a\n", b"ab1\n", b"a(b)\n", "aé日x\n".encode(), b" a-b,\n", b"{a}[1]:\n", b"aaa11\n"]
LH = [probe.hx(l) for l in LINES]


def prepare(build, tier):
    return {"psrv": probe.build_psrv(build), "fuzz": build.fuzzer("fuzz_rx", extra_srcs=["rset.c", "regex.c", "sbuf.c", "uc.c"]),
            "src": build.src}


def budget(tier):
    return (1200, 16) if tier == "quick" else (60000, 16)


META = [b"(", b")", b"[", b"]", b"{", b"}", b"*", b"+", b"?", b"|", b"\\", b"^", b"$", b".", b"-", b",", b":", b"[:", b":]", b"[=", b"\\<", b"\\>",
        b"{1,2}", b"{3,1}", b"(((((((((((((a{3}){3}){2}){4}){4}){3}){2}){3}){3}){3}){2}){2}){2})", b"((((((((((((((((a{2}){2}){2}){2}){2}){2}){2}){2}){2}){2}){2}){2}){2}){2}){2}){2})",
        b"foo{9999}", b"ba{3,1}", b"ya{200}", b"b|a{3,1}", b"{2,0}", b"a{1,0}", b"{0,0}", b"{,0}", b"(ab){3,0}", b"{200}", b"{1,200}", b"{,}", b"{99999999999}", b"{-1}", b"a{2}{3}", b"[[:alpha:]]", b"[[:", b"[^", b"[]", b"[a-", b"[z-a]",
        b"(a)" * 33, b"(" * 70 + b"a" + b")" * 70, b"a?" * 40, b"(a|b)", b"\xc3", b"\xe6\x97", b"\xf0\x9f\x98", b"\xf6", b"\xff", b"\x80", b"\xc3\xa9", b"\xe6\x97\xa5",
        # overlong forms: they decode to the code of a character of the test lines (a 1 é x) but have another length
        b"\xc1\xa1", b"\xc0\xb1", b"\xe0\x81\xa1", b"\xe0\x83\xa9", b"\xf0\x80\x81\xa1", b"\xc1\xb8", b"a\xc1\xa1", b"\xc1\xa1\xc1\xa1\xc1\xa1"]
piece = st.one_of(st.sampled_from(META), st.sampled_from(META), st.binary(min_size=1, max_size=4), st.sampled_from([b"a", b"b", b"ab", b"1", b" "]))
pattern_bytes = st.lists(piece, min_size=1, max_size=10).map(b"".join).map(lambda b: b.replace(b"\x00", b"a").replace(b"\n", b"b")[:300])


def strategy(tier):
    return st.tuples(pattern_bytes, st.booleans()).map(lambda t: {"kind": "pat", "pat": t[0], "icase": t[1]})


def _explosive(patb):
    try:
        return rxgen.explosive(patb.decode("latin-1"))
    except RecursionError:
        return True


_NREPS = {}


def _nreps(env):
    if "v" not in _NREPS:
        m = re.search(r"#define\s+NREPS\s+(\d+)", open(os.path.join(env.paths["src"], "regex.c")).read())
        _NREPS["v"] = int(m.group(1)) if m else 128
    return _NREPS["v"]


def _check_pat(p, patb, icase):
    # the delimiter scanner of the editor (re_read) on an exactly sized copy: it must stop at the terminator
    for dl in (b"/", b"?"):
        rr = p.call("rr", probe.hx(dl + patb))[0]
        if rr[1] > len(patb) + 1:
            return "re_read consumed %d bytes of a %d-byte string" % (rr[1], len(patb) + 1), [0, 0, 0, 1, 900]
    r = p.call("c11", 1 if icase else 0, probe.hx(patb), len(LINES), *LH)[0]
    made_rs, made_str, nfound, nbad, first = r
    if nbad:
        return "offsets out of range / out of order / inside a character (code %d)" % first, r
    return None, r


def run_case(env, c):
    if c["kind"] == "fuzz":
        d = env.fresh()
        f = os.path.join(d, "in")
        with open(f, "wb") as fh:
            fh.write(c["data"])
        r = subprocess.run([env.paths["fuzz"], f], stdout=subprocess.PIPE, stderr=subprocess.PIPE,
                           env={"ASAN_OPTIONS": "detect_leaks=0:abort_on_error=0", "PATH": "/usr/bin:/bin"})
        if r.returncode != 0:
            err = r.stderr.decode("utf-8", "replace")
            m = re.search(r"(C11-ORACLE-FAIL[^\n]*|ERROR: AddressSanitizer[^\n]*|runtime error[^\n]*)", err)
            frames = [l.strip()[:160] for l in err.splitlines() if l.strip().startswith("#")][:4]
            return Outcome(False, True, ["fuzz"], detail={"why": m.group(1) if m else "fuzz target failed", "frames": frames})
        return Outcome(True, True, ["fuzz"])
    if c["kind"] == "sweep":
        p = probe.get(env)
        line = c["line"]
        try:
            r = p.call("c11", 1 if c["icase"] else 0, probe.hx(c["pat"]), 3, probe.hx(line + b"\n"), probe.hx(b"\n"), probe.hx(line[:-1] + b"\n"))[0]
        except probe.ProbeCrash as e:
            return Outcome(False, True, ["sweep"], detail={"why": "memory error while compiling/matching", "pat": c["pat"], "err": e.err[-1800:]})
        except probe.ProbeTimeout:
            return Outcome(True, False, ["probe_timeout_inconclusive"], inconclusive=True)
        if r[3]:
            return Outcome(False, True, ["sweep"], detail={"why": "offsets out of range / order (code %d)" % r[4], "pat": c["pat"], "result": r})
        return Outcome(True, True, ["sweep"])
    patb = c["pat"]
    if _explosive(patb):
        return Outcome(True, False, ["excluded_explosive_F22"])
    p = probe.get(env)
    try:
        why, r = _check_pat(p, patb, c.get("icase", False))
    except probe.ProbeCrash as e:
        return Outcome(False, True, ["probe_crash"], detail={"why": "memory error while compiling/matching", "pat": patb, "err": e.err[-1800:]})
    except probe.ProbeTimeout:
        return Outcome(True, False, ["probe_timeout_inconclusive"], inconclusive=True)
    # a repetition with invalid bounds (above the limit, or maximum below minimum) rejects the pattern - it must not be dropped
    # together with the rest of the pattern while what stands before it is compiled (judged only where a brace is plainly an
    # operator: right after a letter or a closing parenthesis, no brackets or backslashes in the pattern)
    if r[0] and b"[" not in patb and b"]" not in patb and b"\\" not in patb and all(x < 0x80 for x in patb) and \
            b"{" not in re.sub(rb"(?<=[a-z)])\{\d{1,9}(,\d{0,9})?\}", b"", patb):       # (every brace is a well-formed interval after an atom)
        for m in re.finditer(rb"[a-z)]\{(\d{1,9})(,(\d{0,9}))?\}", patb):
            lo = int(m.group(1))
            hi = lo if m.group(2) is None else (-1 if m.group(3) == b"" else int(m.group(3)))
            if lo > _nreps(env) or hi > _nreps(env) or (0 <= hi < lo):
                return Outcome(False, True, ["compiled", "invalid_bounds_accepted"],
                               detail={"why": "the pattern has a repetition with invalid bounds {%d,%d} but was compiled (as what stands before it?)" % (lo, hi), "pat": patb, "result": r})
    if r[0] and b"[" not in patb and b"\\" not in patb and b"{" not in patb and all(x < 0x80 for x in patb):     # (an unterminated { takes the next character for its })
        dep = 0         # (over the pattern as rset_make wraps it: "((" pattern "))" - so that ")(" is, oddly, balanced)
        for ch in b"((" + patb + b"))":
            dep += 1 if ch == 0x28 else (-1 if ch == 0x29 else 0)
            if dep < 0:
                return Outcome(False, True, ["compiled", "unbalanced_accepted"],
                               detail={"why": "the pattern closes a parenthesis it never opened but was compiled (as its prefix?)", "pat": patb, "result": r})
    pj, used = rxgen.parse("((" + patb.decode("latin-1") + "))")
    malformed = pj is None or used != len(patb) + 4
    nt = (bool(r[0]) and malformed) or not r[0]
    cl = ["compiled" if r[0] else "rejected", "literal_path" if (r[1] and not r[0]) or (r[1] and not any(ch in patb for ch in b"\\.*+?[]{}()$|^")) else "regex_path"]
    if why:
        return Outcome(False, nt, cl, detail={"why": why, "pat": patb, "result": r})
    return Outcome(True, nt, cl, key=patb.decode("latin-1") + ("/i" if c.get("icase") else ""))


def _exh(args):
    path, firsts, maxlen = args
    p = probe.Probe(path, timeout=8.0)
    n = nt = excl = rej = 0
    viol = []
    for L in range(1, maxlen + 1):
        for rest in itertools.product(ALPHA19, repeat=L - 1):
            if len(viol) >= 2:
                break
            for f in firsts:
                pat = (f + "".join(rest)).encode()
                if _explosive(pat):
                    excl += 1
                    continue
                for ic in (0, 1):
                    n += 1
                    try:
                        why, r = _check_pat(p, pat, ic)
                    except probe.ProbeCrash as e:
                        why, r = "memory error: " + e.err[-400:], [0]
                    except probe.ProbeTimeout:
                        why, r = "no answer within 8 s for a pattern of <=5 characters (not judged explosive by the analysis)", [0]
                    if not r[0]:
                        rej += 1
                    if why and len(viol) < 2:
                        viol.append({"case": {"kind": "pat", "pat": pat, "icase": bool(ic)}, "why": why})
                if any(ch in "()[]{}*+?|\\^$." for ch in f + "".join(rest)):
                    nt += 1
    p.close()
    return n, nt, excl, rej, viol


def _sweep_patterns(k):
    """families that put one size parameter k at every value: group counts (sequence, nesting, alternation, under a repetition),
    repetition bounds, bracket sizes, literal lengths.  Each comes with a line on which the whole pattern matches, so every group
    mark and every repetition counter is actually written."""
    a = b"a"
    fam = [
        (b"(a)" * k, a * k),
        (b"(a)" * k + b".[b]$", a * k + b"xb"),
        (b"(" * k + a + b")" * k, a),
        (b"|".join(b"(" + bytes([0x62 + (i % 20)]) + b")" for i in range(k - 1)) + b"|(a)", a),
        (b"(" + b"(a)" * max(1, k - 1) + b")+", a * (2 * max(1, k - 1))),
        (b"a{%d}" % k, a * k),
        (b"a{%d,}" % k, a * (k + 1)),
        (b"a{1,%d}b" % k, a * k + b"b"),
        (b"a{%d,0}" % k, a * k),
        # nested counted repetitions: the program size is the PRODUCT of the counts (2^k, 3^k instructions)
        (b"(" * min(k, 40) + a + b"){2}" * min(k, 40), a * (2 ** min(k, 12))),
        (b"(" * min(k, 30) + a + b"){3}" * min(k, 30), a * (3 ** min(k, 8))),
        (b"(" * min(k, 20) + b"a{%d}" % (k % 7 + 2) + b"){4}" * min(k, 20), a * 64),
        (b"(ab){%d,0}c" % k, b"ab" * k + b"c"),
        (b"a{%d,%d}" % (k, max(0, k - 1)), a * k),
        (b"(a){%d}" % k, a * k),
        (b"(a{2}){%d}" % (k // 2 + 1), a * (2 * (k // 2 + 1))),
        (b"[" + bytes(0x30 + (i % 70) for i in range(k)) + b"]+", bytes(0x30 + (i % 70) for i in range(k))),
        (b"[" + b"".join(b"%c-%c" % (0x41 + i % 26, 0x41 + i % 26) for i in range(k)) + b"]", b"C"),
        (b"[[:alpha:]]" * k, a * k),
        (a * k, b"b" + a * k),
        ("é".encode() * k, "xé".encode() + "é".encode() * k),
        (b"\\<" + a * k + b"\\>", b" " + a * k + b" "),
    ]
    return fam


def _sweep(args):
    path, ks = args
    p = probe.Probe(path, timeout=20.0)
    n = comp = 0
    viol = []
    for k in ks:
        for pat, line in _sweep_patterns(k):
            for ic in (0, 1):
                n += 1
                try:
                    r = p.call("c11", ic, probe.hx(pat), 3, probe.hx(line + b"\n"), probe.hx(b"\n"), probe.hx(line[:-1] + b"\n"))[0]
                    why = ("offsets out of range / order (code %d)" % r[4]) if r[3] else None
                    comp += bool(r[0])
                except probe.ProbeCrash as e:
                    why = "memory error: " + e.err[-600:]
                    p = probe.Probe(path, timeout=20.0)
                except probe.ProbeTimeout:
                    why = None          # slow is not judged here
                    p = probe.Probe(path, timeout=20.0)
                if why and len(viol) < 2:
                    viol.append({"case": {"kind": "sweep", "pat": pat, "line": line, "icase": bool(ic)}, "why": why})
    p.close()
    return n, comp, viol


def _seeds(src, corpus):
    """seed inputs: a few valid patterns from conf.h plus hand-made ones"""
    pats = [b"a(b|c)*d", b"^[a-z]+$", b"\\<foo\\>", b"[[:alpha:]_][[:alnum:]_]*", b"(a)(b)\\.", b"x{2,3}", b"^$"]
    try:
        txt = open(os.path.join(src, "conf.h"), encoding="utf-8").read()
        for m in re.finditer(r'"((?:[^"\\]|\\.){3,40})"', txt):
            s = m.group(1).encode().decode("unicode_escape", "ignore").encode("latin-1", "ignore")
            if b"\n" not in s and len(s) <= 24:
                pats.append(s)
    except Exception:
        pass
    for i, pb in enumerate(pats[:40]):
        with open(os.path.join(corpus, "s%d" % i), "wb") as f:
            f.write(bytes([i % 8]) + pb + b"\nint main(void) {ab1}")
    with open(os.path.join(corpus, "m1"), "wb") as f:
        f.write(b"\x00a+\nb*\n[cd]\n\xc3\xa9\nxab\xc3\xa9cd")


def extra(env, tier, seed):
    maxlen = 4 if tier == "quick" else 5
    jobs = [(env.paths["psrv"], [c], maxlen) for c in ALPHA19]
    with multiprocessing.get_context("fork").Pool(16) as pool:
        res = pool.map(_exh, jobs)
    n = sum(r[0] for r in res)
    nt = sum(r[1] for r in res)
    out = [{"name": "all_pattern_strings_le_%d_over_19_metacharacters" % maxlen, "exhaustive": True, "evaluations": n, "distinct_nontrivial": nt,
            "excluded_explosive": sum(r[2] for r in res), "rejected_by_compiler": sum(r[3] for r in res), "lines": [l.decode() for l in LINES],
            "samples": ["(a|", "[[:", "a{1,", "\\(\\)", "a{,}*"], "violations": [{"case": v["case"]} for r in res for v in r[4]][:3]}]
    # size-parameter sweep: every group count / repetition bound / bracket size / literal length 1..K
    K = 150 if tier == "quick" else 400
    ks = list(range(1, K + 1))
    jobs = [(env.paths["psrv"], ks[i::16]) for i in range(16)]
    with multiprocessing.get_context("fork").Pool(16) as pool:
        res = pool.map(_sweep, jobs)
    out.append({"name": "size_parameter_sweep_1_to_%d" % K, "exhaustive": True, "evaluations": sum(r[0] for r in res),
                "distinct_nontrivial": sum(r[1] for r in res), "families": [x[0].decode("latin-1") for x in _sweep_patterns(3)],
                "samples": ["(a)" * 3, "a{3,}", "[012]+"], "violations": [{"case": v["case"]} for r in res for v in r[2]][:3]})
    # libFuzzer campaign
    root = os.path.dirname(env.root)
    corpus = os.path.join(root, "fz_corpus")
    art = os.path.join(root, "fz_art")
    for d in (corpus, art):
        shutil.rmtree(d, ignore_errors=True)
        os.makedirs(d)
    _seeds(env.paths["src"], corpus)
    secs, forks = (40, 12) if tier == "quick" else (900, 16)
    cmd = [env.paths["fuzz"], "-max_total_time=%d" % secs, "-fork=%d" % forks, "-ignore_timeouts=1", "-ignore_ooms=1", "-timeout=20",
           "-seed=%d" % (seed + 1), "-max_len=160", "-artifact_prefix=" + art + "/", corpus]
    r = subprocess.run(cmd, stdout=subprocess.PIPE, stderr=subprocess.PIPE, env={"ASAN_OPTIONS": "detect_leaks=0", "PATH": "/usr/bin:/bin"})
    err = r.stderr.decode("utf-8", "replace")
    execs = [int(x) for x in re.findall(r"#(\d+): cov:", err)]
    cov = [int(x) for x in re.findall(r"cov: (\d+)", err)]
    crashes = sorted(glob.glob(os.path.join(art, "crash-*")) + glob.glob(os.path.join(art, "leak-*")))
    viol = []
    for cf in crashes[:5]:
        viol.append({"case": {"kind": "fuzz", "data": open(cf, "rb").read()}})
    ncorp = len(os.listdir(corpus))
    out.append({"name": "libfuzzer_fuzz_rx", "exhaustive": False, "evaluations": max(execs) if execs else 0, "distinct_nontrivial": ncorp,
                "coverage_edges": max(cov) if cov else 0, "seconds": secs, "forks": forks, "crash_artifacts": len(crashes),
                "ignored_artifacts": len(glob.glob(os.path.join(art, "timeout-*")) + glob.glob(os.path.join(art, "oom-*")) + glob.glob(os.path.join(art, "slow-*"))),
                "samples": ["corpus entries kept by coverage: %d" % ncorp], "violations": viol})
    return out
