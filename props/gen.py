"""Shared Hypothesis generators: UTF-8 buffer texts, ex commands, vi key streams, patterns.

Soundness rules (see DESIGN.md 1.5): never ^Z; shell text only from a whitelist and with
</dev/null when the editor does not pipe into it; no register that executes itself; typed text
and patterns are valid UTF-8; only relative file names.
"""
from hypothesis import strategies as st

# ------------------------------------------------------------------ texts (valid UTF-8)
WORDS = ["a", "ab", "abc", "foo", "bar", "Foo", "x1", "_id", "the", "if", "int", "return"]
PUNCT = [".", ",", ";", "(", ")", "[", "]", "{", "}", "-", "+", "=", "*", "/", "\\", "$", "'", "`", "<", ">", "|", "\"", "#", "%", "&", "!", "?", ":", "~", "^"]
MB = ["é", "ü", "ß", "ل", "ب", "ا", "م", "ی", "ک", "日", "本", "語", "😀", "́", "َ", "‌", "‍", "ﷲ", "Ω", " "]
BLANK = [" ", " ", " ", "\t", "  "]

atom = st.one_of(st.sampled_from(WORDS), st.sampled_from(WORDS), st.sampled_from(PUNCT),
                 st.sampled_from(MB), st.sampled_from(BLANK), st.sampled_from(BLANK))
text_line = st.lists(atom, max_size=12).map("".join)
ascii_atom = st.one_of(st.sampled_from(WORDS), st.sampled_from(PUNCT), st.sampled_from(BLANK))
ascii_line = st.lists(ascii_atom, max_size=12).map("".join)
long_line = st.tuples(st.lists(atom, min_size=1, max_size=6).map("".join), st.integers(5, 60)).map(lambda t: t[0] * t[1])
any_line = st.one_of(text_line, text_line, text_line, ascii_line, st.just(""), long_line)


@st.composite
def buffer_text(draw, max_lines=14, allow_long=True):
    """list of str lines (no newlines inside); sometimes longer than a window"""
    kind = draw(st.integers(0, 9))
    if kind == 0:
        return []
    if kind == 1:
        return [draw(any_line)]
    if kind == 2 and allow_long:
        n = draw(st.integers(25, 70))
        pool = draw(st.lists(text_line, min_size=1, max_size=6))
        return [pool[(i * 5 + i // 3) % len(pool)] + (str(i) if i % 4 == 0 else "") for i in range(n)]
    return draw(st.lists(any_line if allow_long else text_line, min_size=1, max_size=max_lines))


def to_bytes(lines):
    return "".join(l + "\n" for l in lines).encode("utf-8")


# ------------------------------------------------------------------ patterns (strings)
PAT_ATOMS = ["a", "b", "c", "ab", "foo", "o", "x", ".", "[ab]", "[^a]", "[a-c]", "[[:alpha:]]", "[[:space:]]", "[^[:digit:]]",
             "^", "$", "\\<", "\\>", "(", ")", "|", "*", "+", "?", "{2}", "{1,3}", "{,2}", "{2,}", "\\.", "\\*", "\\(", "\\\\",
             "é", "ل", "日", " ", "[]a]", "[a-]", "()", "(a|b)", "(ab)*", "a*", "x*", ".*", "_", "1", "\\/", "%", "#"]
HOSTILE = ["(", ")", "[", "]", "[a", "[[:alpha:]", "[[:", "a{", "a{1", "a{1,", "a{3,1}", "a{200}", "a{1,200}", "a{,}", "{", "}", "*", "+", "?",
           "**", "a**", "a*+", "a|", "|a", "||", "()", "(()", "())", "\\", "a\\", "[\\]", "[]", "[^]", "[]]", "[^]]", "[a-", "[z-a]", "\\<\\>", "\\>",
           "\\<", "^*", "$*", "^^", "$$", "a{0}", "a{0,0}", "(a){0}", "((((((((((a))))))))))", "(a)" * 40, "(a)" * 70, "a?" * 30, "[[:foo:]]", "[[=a=]]", "[[.a.]]",
           "\\9", "\\1", "(a)\\1", "[[:alpha:][:digit:]]", "(^a)", "(a$)", "(|a)", "(a|)", "a{1}{2}", ".{100}", "x{128}", "x{129}", "é*", "[é-日]", "[日-é]"]


def pattern_risky(p):
    """Reject patterns whose backtracking can be exponential (construction rule, counted)."""
    from models import rxgen
    try:
        if rxgen.explosive(p):
            return True
    except Exception:
        pass
    nq = sum(p.count(c) for c in "*+{")
    grp_q = any(p[i] == ")" and i + 1 < len(p) and p[i + 1] in "*+{?" for i in range(len(p)))
    if grp_q and nq > 1:
        return True
    return nq > 4


pattern_str = st.one_of(
    st.lists(st.sampled_from(PAT_ATOMS), min_size=1, max_size=6).map("".join),
    st.sampled_from(HOSTILE),
    st.tuples(st.sampled_from(HOSTILE), st.sampled_from(PAT_ATOMS)).map(lambda t: t[0] + t[1]),
    st.tuples(st.sampled_from(PAT_ATOMS), st.sampled_from(HOSTILE)).map(lambda t: t[0] + t[1]),
    st.sampled_from(WORDS),
    st.just(""),
).filter(lambda p: not pattern_risky(p) and "\n" not in p)


def delim_escape(p, d="/"):
    """escape the delimiter inside a pattern the way re_read() undoes it"""
    out = []
    i = 0
    while i < len(p):
        if p[i] == "\\" and i + 1 < len(p):
            out.append(p[i:i + 2])
            i += 2
            continue
        if p[i] == d:
            out.append("\\" + d)
        else:
            out.append(p[i])
        i += 1
    return "".join(out)


# ------------------------------------------------------------------ ex commands
MARKS = "abcxyz"
REGS = ["a", "b", "c", "x", "A", "B", "1", "2", "9", "\\a", "\\x", "\\~", "\"", ""]
LONGNAME = "n" * 200 + ".c"
FILES = ["f", "g", "h.c", "t.py", "ls", "m.tex", "nofile", LONGNAME]
SHELL = ["tr a-z A-Z", "sort", "rev", "sed s/$/X/", "cat", "true", "echo w", "cat -n", "head -1", "false", "wc -l", "nonexistentcmd"]
OPTS = ["ai", "aw", "hist", "hl", "hll", "ic", "lim", "order", "ru", "shape", "td", "wa", "autoindent", "ignorecase", "textdirection", "bogus"]
OPTVALS = ["-3", "-2", "-1", "0", "1", "2", "3", "4", "7", "255", "256", "257", "100000", "-100000", "x", ""]

small = st.integers(0, 16)


@st.composite
def ex_addr1(draw):
    k = draw(st.integers(0, 11))
    if k <= 3:
        a = str(draw(st.one_of(small, st.sampled_from([0, 1, 2, 99, 1000000]))))
    elif k == 4:
        a = "."
    elif k == 5:
        a = "$"
    elif k == 6:
        a = "'" + draw(st.sampled_from(MARKS + "[]*'`^q"))
    elif k == 7:
        a = "/" + delim_escape(draw(pattern_str), "/") + "/"
    elif k == 8:
        a = "?" + delim_escape(draw(pattern_str), "?") + "?"
    elif k == 9:
        a = ""
    elif k == 10:
        a = "/"          # unterminated
    else:
        a = "%"
    for _ in range(draw(st.sampled_from([0, 0, 0, 1, 1, 2]))):
        a += draw(st.sampled_from(["+", "-"])) + draw(st.sampled_from(["", "1", "2", "3", "10", "99999"]))
    return a


@st.composite
def ex_addr(draw):
    k = draw(st.integers(0, 9))
    if k <= 2:
        return ""
    if k <= 5:
        return draw(ex_addr1())
    sep = draw(st.sampled_from([",", ",", ";"]))
    a = draw(ex_addr1()) + sep + draw(ex_addr1())
    if k == 9:
        a += draw(st.sampled_from([",", ";"])) + draw(ex_addr1())
    return a


ins_text = st.lists(st.one_of(text_line, st.just(""), st.just(" "), st.just("\tx")), max_size=3)


def _block(lines):
    # a text block as read from the input stream; "." terminates
    return "".join((l if l != "." else ". ") + "\n" for l in lines) + ".\n"


repl_str = st.lists(st.sampled_from(["x", "Y", "\\0", "\\1", "\\2", "\\9", "&", "\\\\", "\\/", "é", "日", "", " ", "\\n", "~"]), max_size=4).map("".join)


@st.composite
def ex_command(draw, depth=0):
    """one ex command line (may be followed by its text block)"""
    k = draw(st.integers(0, 40))
    ad = draw(ex_addr())
    reg = draw(st.sampled_from(REGS))
    if k == 0:
        return ad + draw(st.sampled_from(["a", "i", "c", "append", "insert", "change"])) + "\n" + _block(draw(ins_text))
    if k == 1:
        return ad + "d " + reg + "\n"
    if k == 2:
        return ad + "y " + reg + "\n"
    if k == 3:
        return ad + "pu " + reg + "\n"
    if k == 4:
        return ad + draw(st.sampled_from(["p", "print", "", "="])) + "\n"
    if k == 5:
        return ad + "k" + draw(st.sampled_from(list(MARKS) + ["", "Q", "'"])) + "\n"
    if k in (6, 7, 8):
        p = delim_escape(draw(pattern_str), "/")
        r = draw(repl_str)
        fl = draw(st.sampled_from(["", "g", "g", "gg", "x"]))
        form = draw(st.integers(0, 5))
        if form == 0:
            return ad + "s\n"
        if form == 1:
            return ad + "s/" + p + "\n"
        return ad + "s/" + p + "/" + r + "/" + fl + "\n"
    if k in (9, 10):
        p = delim_escape(draw(pattern_str), "/")
        g = draw(st.sampled_from(["g", "g!", "v", "global"]))
        if depth < 2:
            inner = draw(ex_command(depth + 1))
        else:
            inner = "d\n"
        head, _, rest = inner.partition("\n")
        return ad + g + "/" + p + "/" + head + "\n" + rest
    if k == 11:
        return "u\n"
    if k == 12:
        return "redo\n"
    if k == 13:
        return "rs " + reg + "\n" + _block(draw(st.lists(st.one_of(text_line, ex_simple()), max_size=3)))
    if k == 14:
        r = draw(st.sampled_from(["a", "b", "c", "x", "\\a", "\\x"]))   # only registers we fill without '@'
        if draw(st.integers(0, 4)) == 0:
            # a register whose script overwrites the register it is running from
            body = draw(st.sampled_from(["1y %s|p|p|p|p|p|p|p|p", "2y %s\n4d", "1d %s|1p|2p|3p|$p", "rs %s\nx\n.\n1p\n2p", "y %s|y %s|=|=|=|=",
                                         # a register that runs itself: bounded nesting, no stack overflow
                                         "@%s", "1p|@%s", "ra %s", "=\n@%s\n="]))
            rr = r[-1]
            return "rs " + rr + "\n" + body.replace("%s", rr) + "\n.\n" + "@" + rr + "\n"
        return ad + draw(st.sampled_from(["@ ", "ra "])) + r + "\n"
    if k == 15:
        return "w" + draw(st.sampled_from(["", "!", "q", "q!"])) + " " + draw(st.sampled_from(FILES + ["", "", "%", "#"])) + "\n"
    if k == 16:
        return ad + "w! " + draw(st.sampled_from(FILES)) + "\n"
    if k == 17:
        return draw(st.sampled_from(["e", "e!", "ew", "ew!"])) + " " + draw(st.sampled_from(["", "+2 ", "+$ ", "+/a/ ", "+d "])) + \
            draw(st.sampled_from(FILES + ["", "%", "#", "=f"])) + "\n"
    if k == 18 and draw(st.integers(0, 5)) == 0:
        # the buffer table exactly full (16), then buffers deleted / more files opened
        return "".join("e! z%d\n" % i for i in range(1, draw(st.sampled_from([14, 15, 15, 16, 17])))) + \
            draw(st.sampled_from(["b !\n", "b !\nb !\ne! zz\n", "b 3\nb !\ne zq\n", "b ~\nb !\n", "e! zlast\nb !\n"]))
    if k == 18:
        return "b" + draw(st.sampled_from(["", " 1", " 2", " 3", " 9", " +", " -", " %", " #", " ^", " !", " ~", "! 2", " x"])) + "\n"
    if k == 19:
        return ad + "r " + draw(st.sampled_from(FILES + ["", "!echo hi", "!cat f", "!"])) + "\n"
    if k == 20:
        o = draw(st.sampled_from(OPTS))
        v = draw(st.sampled_from(OPTVALS))
        form = draw(st.integers(0, 3))
        return "se " + (o if form == 0 else "no" + o if form == 1 else o + "=" + v) + "\n"
    if k == 21:
        sh = draw(st.sampled_from(SHELL))
        if ad:
            return ad + "!" + sh + "\n"
        return "!" + sh + " </dev/null\n"
    if k == 22:
        return ad + "w !" + draw(st.sampled_from(["cat >/dev/null", "true", "wc -c >/dev/null"])) + "\n"
    if k == 23:
        return draw(st.sampled_from(["n", "prev", "next"])) + "\n"
    if k == 24:
        return draw(st.sampled_from(["ta ", "tn", "tp", "po", "tf", "ta foo", "ta main", "ta nosuch"])) + "\n"
    if k == 25:
        return draw(st.sampled_from(["ft", "ft c", "ft sh", "ft ---", "ft " + "x" * 40, "cm", "cm fa", "cm! fa", "cm en", "cm zz"])) + "\n"
    if k == 26:
        return "ec " + draw(text_line) + "\n"
    if k == 27:
        return "rx " + draw(st.sampled_from(["a", "b", "\\x", ""])) + " " + draw(st.sampled_from(SHELL)) + "\n"
    if k == 28:
        # long commands around the 512-byte limit, with % and # expansion
        n = draw(st.sampled_from([300, 500, 509, 510, 511, 512, 513, 600, 1100, 3000]))
        base = draw(st.sampled_from(["ec ", "e ", "w! ", "r ", "make ", "!true ", "s/a/", "g/a/s/b/", "ta ", "ft ", "rs ", "b ", "so "]))
        fill = draw(st.sampled_from(["x", "%", "#", "% ", "é", "\\", "a b ", "/"]))
        return (base + fill * n)[:n] + "\n"
    if k == 29:
        return draw(st.sampled_from(["bogus", "z", "xyzzy 1 2", "&", "~", "k", "!", "=", "@", "ra", "rs", "rx", "rs \\:\n.", "rs \\/\n.", "rs \\!\n.", "rk a nosock", "rk z nosock", "rk z /nonexistent/s", "rk", "rk \\y x", "so nofile", "so f", "make", "make -n x"])) + "\n"
    if k == 30:
        # | lists
        a = draw(ex_simple())
        b = draw(ex_simple())
        return a + "|" + b + "\n"
    if k == 31:
        return draw(st.sampled_from(["q", "x", "xa", "wq", "q", "x!"])) + "\n"
    if k == 32:
        return ad + "\n"
    if k == 33:
        return ad + draw(st.sampled_from(["d", "y", "pu", "=", "p", "k a", "s/a/b/", ">", "<"])) + "\n"
    return draw(ex_simple()) + "\n"


@st.composite
def ex_simple(draw):
    """single-line command without text block (usable in | lists and register bodies); no '@'"""
    ad = draw(ex_addr())
    k = draw(st.integers(0, 9))
    if k == 0:
        return ad + "d"
    if k == 1:
        return ad + "p"
    if k == 2:
        return ad + "s/" + delim_escape(draw(pattern_str), "/") + "/" + draw(repl_str) + "/" + draw(st.sampled_from(["", "g"]))
    if k == 3:
        return ad + "y a"
    if k == 4:
        return ad + "pu a"
    if k == 5:
        return ad + "k" + draw(st.sampled_from(MARKS))
    if k == 6:
        return "u"
    if k == 7:
        return ad + "="
    if k == 8:
        return ad
    return "ec " + draw(st.sampled_from(WORDS))


ex_script = st.lists(ex_command(), min_size=1, max_size=25).map("".join)


# ------------------------------------------------------------------ vi keys
ESC = "\x1b"


def ctl(c):
    return chr(ord(c) & 0x1f)


COUNT = st.one_of(st.just(""), st.just(""), st.just(""), st.integers(1, 9).map(str), st.integers(2, 4).map(str), st.sampled_from(["10", "25", "100", "0"]))
BIGCOUNT = st.sampled_from(["99999", "123456", "1000"])
CHARS = st.sampled_from(["a", "b", "o", "x", " ", ".", "(", ")", "é", "ل", "日", "\t", "1", "_"])
SIMPLE_MOTIONS = ["h", "l", "j", "k", "0", "^", "$", "|", "w", "b", "e", "W", "B", "E", ";", ",", "G", "+", "-", "_", "%", "{", "}",
                  "H", "M", "L", " ", "\x7f", "\x08", "\n", "[[", "]]", "n", "N", ctl("a")]
typed_atom = st.one_of(st.sampled_from(WORDS), st.sampled_from(MB), st.sampled_from(BLANK), st.sampled_from(PUNCT),
                       st.sampled_from(["\n", "\n", ctl("h"), ctl("w"), ctl("u"), ctl("t"), ctl("d"), ctl("p"), ctl("v") + "a", ctl("v") + "\t",
                                        ctl("v") + ESC, ctl("k") + "a:", ctl("k") + "e'", ctl("k") + "zz", ctl("k") + ctl("k"), ctl("r") + "a",
                                        ctl("r") + "\"", ctl("r") + "z", ctl("e"), ctl("f"), ctl("a"), ctl("a") + ctl("a"), "\x7f"]))
# (leading white space that accumulates over the lines of ONE insert: the autoindent buffer holds 128 bytes)
DEEP_INDENT = [" " * 60 + "q\n", " " * 100 + "a\n", "\t" * 50 + "x\n", " " * 127 + "\n", " " * 126 + "z\n", ctl("t") * 70 + "w\n"]
typed_text = st.one_of(st.lists(typed_atom, max_size=8).map("".join), st.lists(typed_atom, max_size=8).map("".join),
                       st.lists(st.one_of(st.sampled_from(DEEP_INDENT), st.sampled_from(DEEP_INDENT), typed_atom), min_size=2, max_size=6).map("".join))
REGPFX = st.sampled_from(["", "", "", "\"a", "\"b", "\"A", "\"1", "\"9", "\"\\x", "\"\"", "\"z", "\"."])


@st.composite
def vi_motion(draw):
    k = draw(st.integers(0, 12))
    cnt = draw(COUNT)
    if k <= 6:
        m = draw(st.sampled_from(SIMPLE_MOTIONS))
        if draw(st.integers(0, 30)) == 0 and m in "hjklwG|beWBE":
            cnt = draw(BIGCOUNT)
        return cnt + m
    if k <= 8:
        return cnt + draw(st.sampled_from("fFtT")) + draw(CHARS)
    if k == 9:
        return draw(st.sampled_from(["'", "`"])) + draw(st.sampled_from(MARKS + "'`[]*q"))
    if k == 10:
        p = draw(pattern_str)
        d = draw(st.sampled_from("/?"))
        return cnt + d + p + draw(st.sampled_from(["\n", "\n", "\n", d + "\n", d + "1\n", d + "-1\n", ESC]))
    return cnt + draw(st.sampled_from(SIMPLE_MOTIONS))


@st.composite
def vi_command(draw):
    k = draw(st.integers(0, 44))
    cnt = draw(COUNT)
    rp = draw(REGPFX)
    if k <= 7:
        return draw(vi_motion())
    if k <= 13:
        op = draw(st.sampled_from(["d", "d", "c", "y", "<", ">", "g~", "gu", "gU"]))
        if draw(st.integers(0, 4)) == 0:
            mot = op[-1] if op[0] != "g" else draw(st.sampled_from(["g~", "gu", "~", "u", "U"]))   # doubled
        else:
            mot = draw(vi_motion())
        s = rp + cnt + op + mot
        if op == "c":
            s += draw(typed_text) + ESC
        return s
    if k <= 16:
        sh = draw(st.sampled_from(SHELL[:7]))
        return cnt + "!" + draw(vi_motion()) + sh + "\n"
    if k <= 22:
        return rp + cnt + draw(st.sampled_from(["x", "X", "D", "Y", "p", "P", "J", "~", "p", "P", "x"]))
    if k <= 24:
        return rp + cnt + draw(st.sampled_from(["C", "s", "S"])) + draw(typed_text) + ESC
    if k <= 30:
        return cnt + draw(st.sampled_from(["i", "a", "I", "A", "o", "O"])) + draw(typed_text) + ESC
    if k == 31:
        return cnt + "r" + draw(st.one_of(CHARS, st.just("\n"), st.just(ESC)))
    if k == 32:
        return cnt + draw(st.sampled_from(["u", ctl("r"), "u", "."]))
    if k == 33:
        return cnt + "."
    if k == 34:
        if draw(st.integers(0, 3)) == 0:
            # many copies of a long register / of the last change: more than the 4 KiB input queue holds
            return draw(st.sampled_from(["30", "500", "9999"])) + draw(st.sampled_from(["@q", "@q", ".", "@a"]))
        return cnt + "@" + draw(st.sampled_from(["a", "b", "x", "\\a", "@", "z", "q"]))
    if k == 35:
        return cnt + draw(st.sampled_from([ctl("e"), ctl("y"), ctl("d"), ctl("u"), ctl("f"), ctl("b"), "z\n", "z.", "z-", "z>", "z<", "ze", "zf"]))
    if k == 36:
        return ctl("w") + draw(st.sampled_from(["s", "j", "k", "o", "c", "x", "s", "j", "gf", "gl", "gd", ctl("]"), "q1", "z"]))
    if k == 37:
        return draw(st.sampled_from([ctl("g"), ctl("l"), "ga", "gd", "gf", "gl", ctl("]"), ctl("t"), ctl("^"), "zj", "zk", "zJ", "zK", "zD",
                                     "q1", "q2", "q\n", "q" + ESC, "qz", "ZZ", "m" + "a", "mb", "mx", "mQ"]))
    if k == 38:
        return ":" + draw(ex_simple()) + "\n"
    if k == 39:
        c = draw(ex_command())
        head, _, rest = c.partition("\n")
        if head[:1] in ("a", "i", "c") or "rs " in head or head.endswith(("a", "i", "c", "append", "insert", "change")):
            return ":" + draw(ex_simple()) + "\n"     # text blocks are read from the prompt in vi; keep simple
        if "\n" in rest.strip("\n"):
            return ":" + draw(ex_simple()) + "\n"
        return ":" + head + "\n"
    if k == 40:
        return ":" + draw(st.sampled_from(["", ESC, "se hll\n", "se nohl\n", "se noru\n", "se td=-2\n", "se td=2\n", "se order=2\n", "se lim=3\n",
                                          "se noai\n", "se hist=5\n", "e g\n", "e! f\n", "b 2\n", "w\n", "w! g\n", "%p\n", "1,3p\n", "ec hi\n", "rs a\nx.p\n.\n"]))
    if k == 41:
        return ESC
    if k == 42:
        return draw(st.sampled_from(["\"", "g", "z", "d", "c", "y", ctl("w"), "Z", "m", "'", "`", "@", "r", "f", "!"])) + ESC
    return draw(vi_motion())


vi_keys = st.lists(vi_command(), min_size=1, max_size=40).map("".join)

window = st.tuples(st.one_of(st.integers(2, 6), st.integers(2, 50)), st.one_of(st.integers(2, 12), st.integers(2, 200)))
