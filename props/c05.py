"""C05 - no memory errors, crashes or hangs for any command stream over UTF-8 text.

Grammar-based ex scripts and vi key streams run against the ASan/UBSan build.  Oracle:
exit status 0, no sanitizer report, the quit trailer is reached within the CPU limit.
"""
import os
import re

from hypothesis import strategies as st

from engine.core import Outcome
from engine import runner
from . import gen
from models import rxgen

ID = "C05"
LEVEL = "exploration"
RULE = ("grammar-generated ex scripts / vi key streams over generated valid-UTF-8 buffers, window sizes and option "
        "settings, run under ASan+UBSan(bounds,null,alignment,object-size); non-trivial = stream has >=3 commands AND "
        "touches >=2 of {regex, multi-byte text, undo/redo, second buffer, window smaller than buffer, register "
        "execution, shell filter}; distinct by SHA-1 of the case")
ASSUMPTIONS = ["streams always end in a quit trailer that is reachable from every mode (a stream without a reachable "
               "quit is outside the property: both main loops spin at EOF)",
               "registers never execute themselves (unbounded user recursion is excluded by construction)",
               "patterns with nested or more than four unbounded quantifiers are excluded (exponential but terminating "
               "backtracking is not judged)", "^Z, ^V+raw byte and counts above 6 digits are not generated"]

TAGS = "foo\tf\t/foo/\nfoo\tg\t1\nmain\th.c\t/^int main/\nbar\tnofile\t1\nabc\tf\t3\n"
EX_PREFIX = "rs a\nfoo\n.\nrs b\n1p\n.\nrs c\ns/a/b/\n.\nrs x\nbar\nbaz\n.\nrs \\a\n$d\n.\nrs \\x\nec hi\n.\n"
VI_PREFIX = ":rs q\n" + "l" * 199 + "\n.\n:rs a\nx\n.\n:rs b\ndw\n.\n:rs x\nibar\x16" + gen.ESC + "\n.\n:rs \\a\n$d\n.\n:rs \\x\nec hi\n.\n"     # (^V ESC: a bare ESC would cancel the prompt)


def prepare(build, tier):
    return {"vi": build.vi_asan(), "cov": build.vi_cov()}


def budget(tier):
    return (700, 16) if tier == "quick" else (25000, 16)


@st.composite
def case(draw):
    mode = draw(st.sampled_from(["ex", "vi", "vi"]))
    nfiles = draw(st.sampled_from([1, 1, 1, 2, 3]))
    names = gen.FILES[:nfiles]
    if draw(st.integers(0, 7)) == 0:
        names = [gen.LONGNAME] + names[1:]        # % and # expand to a 200-character name
    files = {n: draw(gen.buffer_text()) for n in names}
    if draw(st.integers(0, 9)) == 0:
        # a multi-byte character astride the 512-byte message buffer / 128-byte name buffers: messages that quote the line or the
        # file name are cut inside it
        k = draw(st.sampled_from([505, 508, 509, 510, 511, 512, 120, 122, 124, 125, 126, 1020]))
        files[names[0]] = [("a" * k) + draw(st.sampled_from(["€", "é", "😀", "日本"])) + "b"] + files[names[0]][:3]
    if nfiles > 1 and draw(st.integers(0, 9)) == 0:
        ln = "a" * draw(st.sampled_from([100, 120, 123, 124, 125, 126, 200])) + draw(st.sampled_from(["€", "é", "😀"]))
        files[ln] = files.pop(names[1])
        names = [names[0], ln] + names[2:]
    if draw(st.integers(0, 5)) == 0:
        files.pop(names[0])           # first file does not exist
    if mode == "ex":
        script = draw(gen.ex_script)
        rows, cols = 24, 80
    else:
        script = draw(gen.vi_keys)
        rows, cols = draw(gen.window)
    opts = draw(st.lists(st.sampled_from(["se noai", "se noic", "se hll", "se nohl", "se order=2", "se order=0", "se td=-2", "se td=-1",
                                          "se td=1", "se td=2", "se lim=5", "se lim=0", "se noshape", "se hist=3", "se hist=1", "se hist=2", "se ru=0", "se ru=2", "se ru=4",
                                          "se aw", "se wa", "cm fa", "ft c"]), max_size=3))
    c = {"mode": mode, "files": files, "argv": names, "script": script, "rows": rows, "cols": cols, "opts": opts}
    # ("loud": ex mode with prompts, vi -e without -s, is only used by regression replays: on a pipe its prompt loop does not
    #  reliably reach the quit trailer, which would read as a hang)
    return c


def strategy(tier):
    return case()


def _features(c):
    s = c["script"]
    f = set()
    if any(x in s for x in ("/", "?", "s/", "g/", "v/")):
        f.add("regex")
    if any(ord(ch) > 127 for l in sum(c["files"].values(), []) for ch in l):
        f.add("multibyte")
    if "u\n" in s or "redo" in s or (c["mode"] == "vi" and ("u" in s or "\x12" in s)):
        f.add("undo")
    if len(c["argv"]) > 1 or "e g" in s or "b 2" in s:
        f.add("second_buffer")
    if c["mode"] == "vi" and max((len(v) for v in c["files"].values()), default=0) > c["rows"] - 1:
        f.add("small_window")
    if "@" in s or "ra " in s:
        f.add("register_exec")
    if "!" in s:
        f.add("shell")
    if c["opts"]:
        f.add("options")
    ncmd = s.count("\n") if c["mode"] == "ex" else max(1, len(s) // 3)
    return f, ncmd


def run_case(env, c):
    d = env.fresh()
    for n, ls in c["files"].items():
        runner.write_file(d, n, gen.to_bytes(ls))
    runner.write_file(d, "tags", TAGS.encode())
    optlines = "".join(o + "\n" for o in c["opts"])
    if c["mode"] == "ex":
        stdin = (EX_PREFIX + optlines + c["script"]).encode("utf-8") + b"\n" + runner.EX_TRAILER
        argv = (["-e"] if c.get("loud") else ["-s", "-e"]) + c["argv"]       # (loud: ex mode with its messages and prompts)
    else:
        stdin = (VI_PREFIX + "".join(":" + o + "\n" for o in c["opts"]) + c["script"]).encode("utf-8") + runner.VI_TRAILER
        argv = ["-v"] + c["argv"]
    cpu1, cpu2 = c.get("cpu", 10), c.get("cpu2", 60)
    r = runner.run_editor(env.paths["vi"], argv, stdin, d, rows=c["rows"], cols=c["cols"], cpu=cpu1, wall=6 * cpu1, want_stats=False)
    feats, ncmd = _features(c)
    nt = ncmd >= 3 and len(feats) >= 2
    cl = ["mode_" + c["mode"]] + ["feat_" + f for f in sorted(feats)]
    if r.timeout:
        # bounded-time clause: re-run once with a 6x budget; still running => hang
        r2 = runner.run_editor(env.paths["vi"], argv, stdin, d, rows=c["rows"], cols=c["cols"], cpu=cpu2, wall=4 * cpu2, want_stats=False)
        if r2.timeout and c["mode"] == "vi" and re.search(r":[^\n:]*!(?![^\n]*</dev/null)[^\n]*\b(sed|tr|sort|rev|cat|head|wc)\b", c["script"]):
            # a ':' prompt left open by one token followed by a '!' operator token: together they are the ex command ":!cmd", whose
            # command reads the editor's own standard input - the rest of the key stream including the quit trailer - and the
            # editor then sits at end of input.  The harness starved the editor; nothing is judged.
            return Outcome(True, False, cl + ["shell_command_ate_the_key_stream_inconclusive"], inconclusive=True)
        if r2.timeout:
            # F22: a nullable alternation under an unbounded quantifier is explored 2^NDEPT ways
            pat = c.get("f22_pattern")
            known = "F22" if pat and pat in c["script"] and rxgen.explosive(pat) else None
            return Outcome(False, nt, cl + ["hang"], known=known, detail={"why": "quit not reached within 60 s CPU (normal cases need <50 ms)",
                                                            "mode": c["mode"], "stdin": stdin[:-len(runner.VI_TRAILER)] if c["mode"] == "vi" else stdin[:-len(runner.EX_TRAILER)]})
        return Outcome(True, nt, cl + ["slow_but_terminates"], inconclusive=True)
    if r.crashed():
        sig = r.signature()
        return Outcome(False, nt, cl + ["crash"], detail={"why": "memory error / crash", "signature": sig, "mode": c["mode"]})
    return Outcome(True, nt, cl)


def extra(env, tier, seed):
    """source line coverage of a sample of generated streams (informational: shows which files the generator reaches thinly)"""
    import glob
    import json
    import subprocess
    from hypothesis import given, settings, seed as hseed, HealthCheck, Phase
    n = 300 if tier == "quick" else 3000
    root = os.path.dirname(env.root)
    prof = os.path.join(root, "prof")
    os.makedirs(prof, exist_ok=True)
    count = [0]

    @hseed(seed + 12345)
    @settings(max_examples=n, database=None, deadline=None, suppress_health_check=list(HealthCheck), phases=[Phase.generate])
    @given(case())
    def body(c):
        d = env.fresh()
        for nm, ls in c["files"].items():
            runner.write_file(d, nm, gen.to_bytes(ls))
        runner.write_file(d, "tags", TAGS.encode())
        optlines = "".join(o + "\n" for o in c["opts"])
        if c["mode"] == "ex":
            stdin = (EX_PREFIX + optlines + c["script"]).encode("utf-8") + b"\n" + runner.EX_TRAILER
            argv = ["-s", "-e"] + c["argv"]
        else:
            stdin = (VI_PREFIX + "".join(":" + o + "\n" for o in c["opts"]) + c["script"]).encode("utf-8") + runner.VI_TRAILER
            argv = ["-v"] + c["argv"]
        count[0] += 1
        runner.run_editor(env.paths["cov"], argv, stdin, d, rows=c["rows"], cols=c["cols"], cpu=10, wall=30, want_stats=False,
                          env_extra={"LLVM_PROFILE_FILE": os.path.join(prof, "p%4m.profraw")})     # %m: profiles are merged on line
    try:
        body()
    except Exception:
        pass
    files = glob.glob(os.path.join(prof, "*.profraw"))
    cov = {}
    try:
        merged = os.path.join(prof, "all.profdata")
        subprocess.run(["llvm-profdata-14", "merge", "-sparse", "-o", merged] + files, check=True, stdout=subprocess.PIPE, stderr=subprocess.PIPE)
        r = subprocess.run(["llvm-cov-14", "export", "-summary-only", "-instr-profile=" + merged, env.paths["cov"]], stdout=subprocess.PIPE, stderr=subprocess.PIPE)
        data = json.loads(r.stdout)
        for f in data["data"][0]["files"]:
            cov[os.path.basename(f["filename"])] = round(f["summary"]["lines"]["percent"], 1)
        cov["TOTAL"] = round(data["data"][0]["totals"]["lines"]["percent"], 1)
    except Exception as e:
        cov = {"error": str(e)[:200]}
    return [{"name": "source_line_coverage_of_a_sample", "exhaustive": False, "evaluations": count[0], "distinct_nontrivial": 0,
             "line_coverage_percent_by_file": cov, "samples": ["%d generated streams run on a clang source-coverage build; profiles merged with llvm-profdata" % count[0]],
             "violations": []}]
