"""C07 - vi cursor motions land where the reference motion semantics say."""
from hypothesis import strategies as st

from engine.core import Outcome
from models import vim, layout
from . import viutil

ID = "C07"
LEVEL = "exploration"
RULE = ("Hypothesis: buffer of 0-12 lines (ASCII words, punctuation, blanks, tabs, empty lines, 2/3/4-byte, wide and combining characters) x start "
        "position x sequence of 1-12 motions from h l j k 0 ^ $ | w b e W B E f F t T ; , G + - _ % { } H M L space backspace with counts and "
        "m/'/` marks x window of 4-30 rows; the cursor (marker character) must be where models/vim.py says, the text unchanged.  Non-trivial = a "
        "motion crossed a line, a count > 1 was used, and a visited line holds a tab or a non-ASCII character; distinct by SHA-1 of the case")
ASSUMPTIONS = ["left-to-right text (right-to-left layout is C17/C18's subject)", "calibrations of the reference: e/b stop on empty lines; 9G beyond the end goes to "
               "the last line, column 1; a failing w at the end of the buffer stays on the last character; t next to its target does not move"]

# (double-width characters from several ranges of the width table, not only the everyday ones: U+3400 U+FFE5 U+1100 U+3105 U+AC00)
ATOMS = ["foo", "bar", "a", "x1", "_id", " ", " ", "  ", "\t", ".", ",", "(", ")", "[", "]", "{", "}", "-", "é", "日", "本", "😀", "́", "ß", "o", "b",
         "\u3400", "\uffe5", "\u1100", "\u3105", "\uac00"]
CHARS = ["o", "a", "b", " ", ".", "(", ")", "é", "日", "\t", "x"]


def prepare(build, tier):
    return {"vi": build.vi_plain(), "src": build.src}


def budget(tier):
    return (1500, 16) if tier == "quick" else (30000, 16)


line = st.one_of(st.lists(st.sampled_from(ATOMS), max_size=10).map("".join), st.just(""), st.just(" "), st.just("\t"))
# (huge counts: beyond every buffer, beyond 2^31 and 2^32 - they must act like "as far as it goes", never wrap around)
count = st.sampled_from([0, 0, 0, 0, 0, 0, 0, 0, 1, 1, 2, 2, 3, 3, 5, 5, 12, 12, 65536, 2147483647, 2147483648, 4294967295, 4294967298, 99999999999])


@st.composite
def motion(draw):
    k = draw(st.integers(0, 12))
    c = draw(count)
    if k <= 7:
        key = draw(st.sampled_from(["h", "l", "j", "k", "0", "^", "$", "|", "w", "b", "e", "W", "B", "E", ";", ",", "G", "+", "-", "_", "{", "}", "H", "M", "L",
                                    " ", "\x7f", "\n", "j", "k", "w", "b", "e", "l", "h"]))
        if key in "0" and c:
            c = 0
        return [key, c, None]
    if k <= 9:
        return [draw(st.sampled_from("fFtT")), c, draw(st.sampled_from(CHARS))]
    if k == 10:
        return ["%", 0, None]
    if k == 11:
        return ["m", 0, draw(st.sampled_from("abq"))]
    return [draw(st.sampled_from(["'", "`"])), 0, draw(st.sampled_from("abq'`"))]


@st.composite
def phrase(draw):
    """one motion, or a find/till followed (possibly after a reposition) by its repeats ; and , - the combination in which
    the reversed direction and the t/T fix-up interact (a seeded change there was missed by independent single motions)"""
    k = draw(st.integers(0, 5))
    if k == 5:
        # N| (any column: inside a tab, on the second cell of a wide character, beyond the end) followed by vertical motions,
        # which must keep the REQUESTED column
        out = [["|", draw(st.integers(1, 40)), None]]
        for _ in range(draw(st.integers(1, 3))):
            out.append([draw(st.sampled_from(["j", "k", "j", "k", "+", "-", "l", "$"])), draw(st.sampled_from([0, 0, 2, 3])), None])
        return out
    if k != 0:
        return [draw(motion())]
    out = [[draw(st.sampled_from("fFtT")), draw(st.sampled_from([0, 0, 2])), draw(st.sampled_from(CHARS))]]
    if draw(st.booleans()):
        out.append([draw(st.sampled_from(["$", "0", "w", "b", "l", "h"])), 0, None])
    for _ in range(draw(st.integers(1, 3))):
        out.append([draw(st.sampled_from([";", ",", ","])), draw(st.sampled_from([0, 0, 0, 2])), None])
    return out


@st.composite
def case(draw):
    lines = draw(st.lists(line, max_size=12))
    steps = [s for ph in draw(st.lists(phrase(), min_size=1, max_size=8)) for s in ph][:14]
    return {"lines": lines, "row": draw(st.integers(0, 11)), "off": draw(st.integers(0, 12)), "rows": draw(st.sampled_from([4, 5, 6, 8, 12, 30])),
            "steps": steps}


def strategy(tier):
    return case()


_tabs = {}


def keys_of(c):
    ks = []
    if c["lines"]:
        ks.append("%dG0" % (min(c["row"], len(c["lines"]) - 1) + 1))
        if c["off"]:
            ks.append("%d " % c["off"])
    for key, cnt, arg in c["steps"]:
        ks.append((str(cnt) if cnt else "") + key + (arg or ""))
    return "".join(ks)


def simulate(c, t):
    v = vim.Vi(c["lines"], c["rows"], t)
    info = {"crossed": False, "count": False, "special": False}
    if c["lines"]:
        v.move("G", min(c["row"], len(c["lines"]) - 1) + 1)
        v.move("0")
        if c["off"]:
            v.move(" ", c["off"])
    for key, cnt, arg in c["steps"]:
        r0 = v.row
        if key == "m":
            v.setmark(arg)
            continue
        v.move(key, cnt, arg)
        if v.row != r0:
            info["crossed"] = True
        if cnt > 1:
            info["count"] = True
        if v.ln and any(ch == "\t" or ord(ch) > 127 for ch in v.ln[v.row]):
            info["special"] = True
    return v, info


def run_case(env, c):
    if "t" not in _tabs:
        _tabs["t"] = layout.Tables(env.paths["src"])
    t = _tabs["t"]
    v, info = simulate(c, t)
    keys = keys_of(c)
    r, out, cur, _ = viutil.run_vi(env, c["lines"], keys, rows=c["rows"], cols=100, want_stats=False)
    nt = info["crossed"] and info["count"] and info["special"]
    cl = [k for k, vv in info.items() if vv] + ["rows_%d" % c["rows"]]
    if r.timeout:
        return Outcome(True, False, cl + ["timeout"], inconclusive=True)
    if r.crashed():
        return Outcome(False, nt, cl, detail={"why": "editor crashed", "sig": r.signature(), "keys": keys})
    if out is None or cur is None:
        return Outcome(False, nt, cl, detail={"why": "no output / marker", "keys": keys})
    want_lines = c["lines"] if c["lines"] else [""]
    if out != want_lines:
        return Outcome(False, nt, cl, detail={"why": "motions changed the text", "keys": keys, "got": out, "lines": c["lines"]})
    want = (v.row, v.off)
    if cur != want:
        return Outcome(False, nt, cl, detail={"why": "cursor at %r, reference says %r" % (cur, want), "keys": keys, "lines": c["lines"], "rows": c["rows"]})
    if c["lines"] and c["lines"][cur[0]] and cur[1] >= len(c["lines"][cur[0]]):
        return Outcome(False, nt, cl, detail={"why": "cursor on the line terminator of a non-empty line", "keys": keys})
    return Outcome(True, nt, cl)
