"""C10 - regex matches are genuine, leftmost, greedy/left-biased, with right group spans.

Patterns are generated as ASTs from the grammar regex.c accepts and printed; the reference
(models/rx.py) evaluates the same AST with set semantics (soundness, leftmost, completeness) and
with backtracking priority semantics (exact span and group spans).  The engine is called through
rset_make()/rset_find() in the ASan probe server.
"""
import itertools
import multiprocessing

from hypothesis import strategies as st

from engine.core import Outcome
from engine import probe
from models import rx, rxgen

ID = "C10"
LEVEL = "exploration"
RULE = ("(a) exhaustive: every string of <=4 (quick) / <=5 (thorough) tokens over {a b . * | ( ) ^ $ [ab]} that the engine compiles x "
        "every line of <=4 characters over {a,b} (newline terminated), flags 0; (b) Hypothesis: sets of 1-4 patterns printed from "
        "grammar ASTs x lines biased to the patterns' own characters x {icase, notbol, noteol}.  Non-trivial = the pattern set has "
        ">=1 quantifier or alternation AND (the match is not the whole line, or the engine reports no match on a line that "
        "contains one of the pattern's literal characters); distinct by SHA-1 of (patterns, line, flags)")
ASSUMPTIONS = ["reference: POSIX ERE with REG_NEWLINE on the newline-terminated line, backtracking priority as documented in models/rx.py",
               "priority/completeness clauses are asserted only when the depth-limit counter (hook) did not move",
               "pattern sets stay below 30 groups (the 64-group limit is probed separately)"]

NG = 14


def prepare(build, tier):
    return {"psrv": probe.build_psrv(build)}


def budget(tier):
    return (1300, 16) if tier == "quick" else (30000, 16)


@st.composite
def case(draw):
    n = draw(st.sampled_from([1, 1, 1, 2, 3, 4]))
    pats = [draw(rxgen.pattern_ast) for _ in range(n)]
    line = draw(rxgen.line_for(pats))
    # a long prefix: the match (if any) then starts beyond 256 characters / bytes.  The documented depth limit bounds the
    # recursion of ONE attempt, not the position of the attempt in the line.
    if draw(st.integers(0, 5)) == 0:
        pool = []
        for a in pats:
            rxgen.chars_of(a, pool)
        padc = draw(st.sampled_from(["-", "-", "\u03c0", " "] + [ch for ch in pool if ch != "\n"][:3]))
        line = padc * draw(st.sampled_from([200, 254, 255, 256, 257, 300, 520])) + line
    return {"pats": pats, "line": line, "icase": draw(st.booleans()), "notbol": draw(st.sampled_from([False, False, True])),
            "noteol": draw(st.sampled_from([False, False, True]))}


def strategy(tier):
    return case()


def _count_groups(n):
    c = [0]

    def w(x):
        if x is None:
            return
        if x.k == "grp":
            c[0] += 1
            w(x.a)
        elif x.k in ("cat", "alt"):
            for y in x.a:
                w(y)
        elif x.k == "rep":
            w(x.a)
    w(n)
    return c[0]


def _groups(n, out):
    if n is None:
        return
    if n.k == "grp":
        out[n.idx] = n
        _groups(n.a, out)
    elif n.k in ("cat", "alt"):
        for y in n.a:
            _groups(y, out)
    elif n.k == "rep":
        _groups(n.a, out)


def check(p, pats_nodes, pat_strs, line, icase, notbol, noteol):
    """returns (why or None, info dict)"""
    info = {}
    wrappers = [rx.grp(n) for n in pats_nodes]
    root = rx.grp(rx.alt(wrappers) if len(wrappers) > 1 else wrappers[0])
    ng_total = rx.number_groups(root, 1)
    lineb = (line + "\n").encode("utf-8")
    flags = 1 if icase else 0
    gflags = (2 if notbol else 0) | (4 if noteol else 0)
    r = p.call("re", flags, gflags, NG, probe.hx(lineb), len(pat_strs), *[probe.hx(s) for s in pat_strs])[0]
    made, idx, cut = r[0], r[1], r[2]
    grps = r[3:]
    info["cut"] = cut
    if not made:
        return "a pattern set printed from the grammar was rejected by rset_make", info
    ctx = rx.Ctx(line + "\n", icase, notbol, noteol)
    b2p = {b: i for i, b in enumerate(ctx.boff)}
    info["found"] = idx >= 0
    # (0) the documented depth limit (256 nested forks) may only be hit by searches that really nest that deeply: the reference
    # replays the search fork by fork; a margin of 56 levels absorbs differences in how alternations are nested
    if cut:
        try:
            md = rx.max_fork_depth(root, ctx)
        except (rx.Budget, RecursionError):
            md = None
        info["max_fork_depth"] = md
        if md is not None and md <= 200:
            return "the engine gave up at its depth limit (%d times) although no branch of this search nests deeper than %d forks" % (cut, md), info
    if idx < 0:
        if cut == 0:
            ss = rx.search_set(root, ctx)
            if ss is not None:
                return "engine reports no match but a match exists at %d (ends %s) and the depth limit was not hit" % (ss[0], sorted(ss[1])[:4]), info
        return None, info
    so, eo = grps[0], grps[1]
    if so not in b2p or eo not in b2p or not (0 <= so <= eo <= len(lineb)):
        return "offsets (%d,%d) are not ordered character boundaries inside the line" % (so, eo), info
    s, e = b2p[so], b2p[eo]
    info["span"] = (s, e)
    # (1) soundness of the whole match, judged on the sub-AST of the reported alternative
    w = wrappers[idx]
    if e not in ctx.ends(w, s):
        return "reported span [%d,%d) of pattern %d is not a match of that pattern in this context" % (s, e, idx), info
    # (2) leftmost over the whole set: promised only while the engine never gave up a branch at its depth limit
    if cut == 0:
        for s0 in range(s):
            if ctx.ends(root, s0):
                return "a match exists at the earlier start %d, engine reported start %d" % (s0, s), info
    # group spans of the chosen alternative: each is a match of its own sub-expression
    gmap = {}
    _groups(w, gmap)
    ngi = _count_groups(w) - 1
    for k in range(1, NG):
        gs, ge = grps[2 * k], grps[2 * k + 1]
        if k > ngi:
            if (gs, ge) != (-1, -1):
                return "group %d does not exist in pattern %d but is reported as (%d,%d)" % (k, idx, gs, ge), info
            continue
        if (gs, ge) == (-1, -1):
            continue
        if gs not in b2p or ge not in b2p or gs > ge:
            return "group %d span (%d,%d) not on character boundaries" % (k, gs, ge), info
        gn = gmap[w.idx + k]
        if b2p[ge] not in ctx.ends(gn.a, b2p[gs]):
            return "group %d span [%d,%d) is not a match of its sub-expression" % (k, b2p[gs], b2p[ge]), info
        if not (s <= b2p[gs] and b2p[ge] <= e):
            return "group %d span lies outside the whole match" % k, info
    # (3) priority: exact span, index and groups, only when the engine did not give up anywhere
    if cut == 0:
        pr = rx.search_prio(root, ctx)
        if pr is None:
            return "engine reports a match but the priority reference finds none (reference/parse disagreement)", info
        ps, pe, caps = pr
        want_idx = [i for i, ww in enumerate(wrappers) if ww.idx in caps]
        if (ps, pe) != (s, e):
            return "span [%d,%d) but leftmost/greedy/left-biased parse gives [%d,%d)" % (s, e, ps, pe), info
        if want_idx != [idx]:
            return "reported index %d, reference alternative %s" % (idx, want_idx), info
        for k in range(1, ngi + 1):
            want = caps.get(w.idx + k)
            got = (grps[2 * k], grps[2 * k + 1])
            wantb = (-1, -1) if want is None else (ctx.boff[want[0]], ctx.boff[want[1]])
            if got != wantb:
                return "group %d reported %r, chosen parse has %r" % (k, got, wantb), info
    return None, info


def run_case(env, c):
    p = probe.get(env)
    nodes = [rxgen.from_json(j) for j in c["pats"]]
    strs = [rx.to_pattern(n) for n in nodes]
    cl = []
    # printer/parser agreement (generator self-check; a disagreement is excluded and counted, never asserted on)
    for j, s in zip(c["pats"], strs):
        pj, used = rxgen.parse(s)
        if used != len(s) or rxgen.normalize(pj) != rxgen.normalize(j):
            return Outcome(True, False, ["excluded_print_parse_mismatch"])
    if sum(_count_groups(n) for n in nodes) + len(nodes) + 1 > 28:
        return Outcome(True, False, ["excluded_too_many_groups"])
    hasq = any(rx.has(n, lambda x: x.k in ("rep", "alt")) for n in nodes)
    try:
        why, info = check(p, nodes, strs, c["line"], c["icase"], c["notbol"], c["noteol"])
    except probe.ProbeCrash as e:
        return Outcome(False, hasq, ["probe_crash"], detail={"why": "memory error in the matcher", "err": e.err[-1500:], "pats": strs, "line": c["line"]})
    except probe.ProbeTimeout:
        return Outcome(True, False, ["probe_timeout_inconclusive"], inconclusive=True)
    if why is None and len(strs) == 1:
        # the same pattern through the editor's single-pattern entry point (rstr_make / rstr_find, which hands everything that is not a
        # plain literal to the engine): identical answer, span and groups
        flags = 1 if c["icase"] else 0
        gflags = (2 if c["notbol"] else 0) | (4 if c["noteol"] else 0)
        lineb = (c["line"] + "\n").encode("utf-8")
        try:
            a = p.call("rs", flags, gflags, NG, probe.hx(lineb), probe.hx(strs[0]))[0]
            b = p.call("re", flags, gflags, NG, probe.hx(lineb), 1, probe.hx(strs[0]))[0]
        except (probe.ProbeCrash, probe.ProbeTimeout):
            a = b = None
        if a and b and a[0] and b[0] and not a[1]:
            cl.append("single_pattern_entry_point")
            if (a[2] >= 0) != (b[1] >= 0) or (a[2] >= 0 and a[4:] != b[3:]):
                why = "rstr_find (the editor's entry point) and rset_find disagree on a pattern that is not a plain literal: %r vs %r" % (a[2:], b[1:])
    if info.get("cut"):
        cl.append("depth_limit_hit")
    cl.append("found" if info.get("found") else "notfound")
    cl.append("set_of_%d" % len(nodes))
    if info.get("found") and info.get("span", (0, 0))[0] >= 256:
        cl.append("match_starts_beyond_256")
    elif len(c["line"]) >= 200:
        cl.append("long_line")
    lits = []
    for j in c["pats"]:
        rxgen.chars_of(j, lits)
    if info.get("found"):
        s, e = info.get("span", (0, 0))
        nt = hasq and (e - s) < len(c["line"])
    else:
        nt = hasq and any(ch in c["line"] for ch in lits)
    if why:
        return Outcome(False, nt, cl, detail={"why": why, "patterns": strs, "line": c["line"], "icase": c["icase"], "notbol": c["notbol"],
                                             "noteol": c["noteol"], "info": info})
    return Outcome(True, nt, cl)


# ------------------------------------------------------------------ exhaustive small scope
TOKENS = ["a", "b", ".", "*", "|", "(", ")", "^", "$", "[ab]"]


def _brk_items(txt):
    """items of a bracket expression string such as [^]a-c[:alpha:]] (for ASTs coming from the parser)"""
    i = 1
    neg = False
    if txt[i:i + 1] == "^":
        neg = True
        i += 1
    items = []
    first = True
    while i < len(txt) and (first or txt[i] != "]"):
        first = False
        if txt[i] == "[" and txt[i + 1:i + 2] == ":":
            j = txt.index(":]", i)
            items.append(("k", txt[i + 2:j]))
            i = j + 2
            continue
        a = txt[i]
        i += 1
        if txt[i:i + 1] == "-" and i + 1 < len(txt) and txt[i + 1] != "]":
            items.append(("r", a, txt[i + 1]))
            i += 2
        else:
            items.append(("c", a))
    return neg, items


def from_parser(j):
    if j is None:
        return None
    if j[0] == "brkraw":
        neg, items = _brk_items(j[1])
        return rx.brk(neg, items)
    if j[0] == "grp":
        return rx.grp(from_parser(j[1]))
    if j[0] in ("cat", "alt"):
        return rx.N(j[0], [from_parser(x) for x in j[1]])
    if j[0] == "rep":
        return rx.rep(from_parser(j[1]), j[2], j[3])
    if j[0] == "lit":
        return rx.lit(j[1])
    return rx.N(j[0])


def _exh_worker(args):
    path, first_tokens, maxtok, lines = args
    p = probe.Probe(path, timeout=6.0)
    n = nt = 0
    viol = []
    samples = []
    for L in range(1, maxtok + 1):
        for rest in itertools.product(TOKENS, repeat=L - 1):
            if len(viol) >= 2:          # stop at the first failures: every further hang would cost its full time budget
                break
            for ft in first_tokens:
                pat = ft + "".join(rest)
                pj, used = rxgen.parse("((" + pat + "))")
                # the engine sees the pattern wrapped by rset_make; skip strings it rejects or truncates (quirk class)
                if pj is None or used != len(pat) + 4:
                    continue
                inner, used2 = rxgen.parse(pat)
                if inner is None or used2 != len(pat):
                    continue
                if pat.endswith("|") or "|)" in pat or "||" in pat or "(|" in pat or pat.startswith("|") or "**" in pat or "^*" in pat or "$*" in pat or "(*" in pat or "|*" in pat or pat.startswith("*"):
                    continue        # unconventional parses (a| == a, literal *, quantified anchors): soundness-only class, not enumerated here
                node = from_parser(inner)
                hasq = "*" in pat or "|" in pat
                for line in lines:
                    if len(viol) >= 2:
                        break
                    n += 1
                    try:
                        why, info = check(p, [from_parser(inner)], [pat], line, False, False, False)
                    except probe.ProbeCrash as e:
                        why, info = "memory error: " + e.err[-300:], {}
                    except probe.ProbeTimeout:
                        why, info = "matching did not terminate within 20 s (normal: microseconds)", {}
                    if hasq and (not info.get("found") or (info.get("span", (0, 0))[1] - info.get("span", (0, 0))[0]) < len(line)):
                        nt += 1
                    if why and len(viol) < 2:
                        viol.append({"case": {"kind": "exh", "pat": pat, "line": line}, "why": why})
                    if len(samples) < 2 and hasq and info.get("found"):
                        samples.append({"pattern": pat, "line": line, "span": info.get("span")})
    p.close()
    return n, nt, viol, samples


def extra(env, tier, seed):
    maxtok = 4 if tier == "quick" else 5
    lines = [""] + ["".join(t) for L in range(1, 5) for t in itertools.product("ab", repeat=L)]
    jobs = [(env.paths["psrv"], [t], maxtok, lines) for t in TOKENS]
    with multiprocessing.get_context("fork").Pool(10) as pool:
        res = pool.map(_exh_worker, jobs)
    n = sum(r[0] for r in res)
    nt = sum(r[1] for r in res)
    viol = [v for r in res for v in r[2]][:3]
    samples = [s for r in res for s in r[3]][:4]
    out = [{"name": "all_patterns_le_%d_tokens_x_all_lines_le_4" % maxtok, "exhaustive": True, "evaluations": n, "distinct_nontrivial": nt,
            "alphabet": TOKENS, "samples": samples, "violations": [{"case": v["case"]} for v in viol]}]
    # witness family: the documented depth limit must not be hit for a* on 250 characters
    p = probe.Probe(env.paths["psrv"])
    wv = []
    for k in (50, 150, 250):
        r = p.call("re", 0, 0, 2, probe.hx("a" * k + "\n"), 1, probe.hx("a*"))[0]
        if r[2] != 0 or (r[3], r[4]) != (0, k):
            wv.append({"case": {"kind": "witness", "k": k}})
    nd = p.call("ndept")[0][0]
    p.close()
    out.append({"name": "depth_limit_witness_family", "exhaustive": True, "evaluations": 3, "distinct_nontrivial": 3, "ndept_reported": nd,
                "samples": ["a* on 250 x 'a' must match completely without hitting the limit"], "violations": wv})
    return out


_rc = run_case


def run_case(env, c):  # noqa: F811
    if c.get("kind") == "exh":
        p = probe.get(env)
        inner, _ = rxgen.parse(c["pat"])
        try:
            why, info = check(p, [from_parser(inner)], [c["pat"]], c["line"], False, False, False)
        except probe.ProbeCrash as e:
            why, info = "memory error: " + e.err[-300:], {}
        except probe.ProbeTimeout:
            why, info = "matching did not terminate within 20 s (normal: microseconds)", {}
        return Outcome(why is None, True, ["exh"], detail={"why": why, "pat": c["pat"], "line": c["line"], "info": info})
    if c.get("kind") == "witness":
        p = probe.get(env)
        k = c["k"]
        r = p.call("re", 0, 0, 2, probe.hx("a" * k + "\n"), 1, probe.hx("a*"))[0]
        ok = r[2] == 0 and (r[3], r[4]) == (0, k)
        return Outcome(ok, True, ["witness"], detail={"why": "a* on %d x 'a': depth limit hit or short match (documented limit 256)" % k, "result": r})
    return _rc(env, c)
