"""Structured ex commands for the reference line editor (models/lined.py): text rendering + strategies."""
from hypothesis import strategies as st

from models import lined, rx, rxgen
from . import gen
from .c14 import typed_repl


def cmd_text(c):
    """command line text (without text blocks)"""
    k = c["c"]
    a = lined.addr_text(c.get("a", []), gen.delim_escape)
    if k in ("a", "i", "c", "p", "=", ""):
        return a + k
    if k in ("d", "y", "pu"):
        return a + k + ((" " + c["r"]) if c.get("r") else "")
    if k == "k":
        return a + "k" + c["m"]
    if k == "s":
        return a + "s/" + gen.delim_escape(rx.to_pattern(rxgen.from_json(c["pat"])), "/") + "/" + typed_repl(c["repl"]) + "/" + ("g" if c.get("g") else "")
    if k in ("g", "v"):
        return a + c.get("sp", k) + "/" + gen.delim_escape(rx.to_pattern(rxgen.from_json(c["pat"])), "/") + "/" + "|".join(cmd_text(x) for x in c["cmds"])
    if k == "r":
        return a + "r " + c["path"]
    if k == "!":
        return a + "!" + c["sh"]
    if k == "list":
        return "|".join(cmd_text(x) for x in c["cmds"])
    raise ValueError(k)


WORDS = ["foo", "bar", "baz", "x", "ab"]


def simple_pat():
    return st.one_of(
        st.sampled_from(WORDS).map(lambda w: ["lit", w]),
        st.sampled_from(["0", "1", "2", "3"]).map(lambda d: ["cat", [["bol"], ["lit", "l"], ["brk", False, [["r", "0", d]]]]]),
        st.tuples(st.sampled_from(WORDS), st.sampled_from(WORDS)).map(lambda t: ["alt", [["lit", t[0]], ["lit", t[1]]]]),
        st.sampled_from(WORDS).map(lambda w: ["cat", [["lit", w], ["eol"]]]),
        st.just(["any"]), st.just(["cat", [["bol"], ["eol"]]]), st.just(["lit", "T"]),
    )


def term(base, offs=()):
    return {"b": base, "o": list(offs)}


rel_addr = st.sampled_from([
    [], [["", term(["."])]], [["", term([""], ["-1"])]], [["", term([""], ["+1"])]], [["", term(["."], ["+1"])]],
    [["", term(["."])], [",", term(["."], ["+1"])]], [["", term([""], ["-1"])], [",", term(["."])]], [["", term([""], ["+"])]],
    [["", term(["$"])]], [["", term(["n", 1])]],
])
