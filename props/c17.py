"""C17 - screen-column layout is a gap-free tiling and cursor/column mapping round-trips."""
from hypothesis import strategies as st

from engine.core import Outcome
from engine import probe
from models import layout, bidi, vim
from . import viutil

ID = "C17"
LEVEL = "exploration"
RULE = ("(a) exhaustive: uc_wid / uc_isbell / uc_iscomb for every code point U+0001..U+10FFFF against a linear scan of the same tables (parsed "
        "from the tree under test), plus sortedness of the tables; (b) Hypothesis: lines of valid UTF-8 (ASCII, tabs at every column, wide, "
        "zero-width, placeholder and right-to-left characters; with and without terminator) x order in {0,1,2} x td in -2..2 x lim in "
        "{0,n-1,n,256}: ren_position must tile [0,total) without gap in visual order, be the logical order when no RTL/mark character is "
        "present, ren_off(ren_pos(i)) = i, ren_next = neighbouring start column (-1 at the ends / on the terminator), ren_cursor, ren_noeol, "
        "ren_wid; (c) the same through the real editor: 1-5 lines with Arabic/Persian letters, diacritics, tabs, wide characters x td x order x "
        "lim x 1-8 motions from h l N| j k $ 0 ^ space backspace: the cursor (marker character) must be where the layout model puts it.  Non-trivial = line with a tab not at column 0 mod 8 or a wide / placeholder / RTL character; distinct by SHA-1 of the case")
ASSUMPTIONS = ["(c): h / l move towards the start / end of the line in its base direction (so to the right / left on the screen in a right-to-left line), as vi.c "
               "multiplies by dir_context; lines that need the configured direction-mark patterns are not generated there",
               "the width tables of uc.c and the placeholder table of conf.h are configuration data: the oracle reads them from the tree under test",
               "every code point for which uc_isbell() holds (which includes the zero-width ones) is drawn as a one-cell placeholder"]

CH = ["a", "b", " ", "\t", "\t", "é", "日", "本", "😀", "́", "ل", "ب", "ا", "‌", "‍", "َ", "ّ", "x", "1", ".", "(", "\x01", "\x7f", "ﷲ", "ـ", "$", "\\"]


def prepare(build, tier):
    return {"psrv": probe.build_psrv(build), "src": build.src, "vi": build.vi_plain()}


def budget(tier):
    return (1500, 16) if tier == "quick" else (40000, 16)


@st.composite
def case(draw):
    s = "".join(draw(st.lists(st.sampled_from(CH), max_size=24)))
    nl = draw(st.sampled_from([True, True, True, False]))
    n = len(s) + (1 if nl else 0)
    return {"s": s + ("\n" if nl else ""), "order": draw(st.sampled_from([0, 1, 1, 2])), "td": draw(st.integers(-2, 2)),
            "lim": draw(st.sampled_from([0, max(0, n - 1), n, 256, 256]))}


# ---- the same laws seen through the real editor: cursor after h / l / N| / j / k / $ / 0 on lines with right-to-left text
VCH = ["a", "b", "Z", "1", " ", " ", ".", ",", "-", "(", ")", "\t", "é", "日", "😀", "ل", "ب", "ا", "م", "و", "ی", "ک", "َ", "ّ", "‌", "ـ", "؟"]
vline = st.lists(st.sampled_from(VCH), max_size=14).map("".join)


@st.composite
def vicase(draw):
    lines = draw(st.lists(vline, min_size=1, max_size=5))
    steps = []
    for _ in range(draw(st.integers(1, 8))):
        k = draw(st.sampled_from(["h", "l", "h", "l", "|", "|", "j", "k", "$", "0", "^", " ", "\x7f", "h", "l", "|", "j", "k", ":esc", "/esc", ":nop"]))
        if k in (":esc", "/esc", ":nop"):
            # a prompt that is cancelled (or a command that changes nothing) must leave direction, order and limit as they were
            steps.append([k, 0, None])
            continue
        cnt = draw(st.integers(1, 30)) if k == "|" else draw(st.sampled_from([0, 0, 0, 1, 2, 3, 7]))
        if k == "0":
            cnt = 0
        steps.append([k, cnt, None])
    return {"kind": "vi", "lines": lines, "row": draw(st.integers(0, 4)), "off": draw(st.integers(0, 14)), "steps": steps,
            "td": draw(st.sampled_from([0, 0, 1, -1, 2, -2])), "order": draw(st.sampled_from([1, 1, 1, 2, 0])),
            "lim": draw(st.sampled_from([256, 256, 256, 8, 0]))}


def strategy(tier):
    return st.one_of(case(), case(), case(), vicase())


_tabs = {}


def tables(env):
    if "t" not in _tabs:
        _tabs["t"] = layout.Tables(env.paths["src"])
    return _tabs["t"]


def check_line(p, t, c):
    s = c["s"]
    cps = [ord(ch) for ch in s]
    n = len(cps)
    r = p.call("ren", probe.hx(s), c["order"], c["td"], c["lim"])
    pos = r[0][1:]
    if r[0][0] != n or len(pos) != n + 1:
        return "character count %d, want %d" % (r[0][0], n)
    total = pos[n]
    # (1) gap-free tiling in visual order
    order = sorted(range(n), key=lambda i: (pos[i], i))
    col = 0
    for i in order:
        if pos[i] != col:
            return "character %d starts at column %d, the previous one ended at %d" % (i, pos[i], col)
        col += t.cwid(cps[i], col)
    if col != total:
        return "total width %d, tiles end at %d" % (total, col)
    if r[1][0] != total:
        return "ren_wid=%d, pos[n]=%d" % (r[1][0], total)
    body = s[:-1] if s.endswith("\n") else s
    ctx = bidi.context(body if body else s, c["td"], t)
    marks = any(ch in "\\$`'*[]{}" for ch in s)
    if ctx > 0:
        plain = not marks and not any(ch in t.cr2l or ord(ch) >= 0x600 for ch in s)
    else:
        plain = not marks and not any(ch in bidi.L_CHARS for ch in s)
    plain = plain or c["order"] == 0 or n > c["lim"] or (c["order"] == 1 and all(ord(ch) < 128 for ch in s))
    if plain and order != list(range(n)):
        return "line without RTL/mark characters is not in logical order"
    # per-offset results
    for i in range(n + 2):
        rp, rn = r[2][2 * i], r[2][2 * i + 1]
        if rp != (pos[i] if i < n else 0):
            return "ren_pos(%d)=%d" % (i, rp)
        o = i if i < n else max(0, n - 1)
        wn = o - 1 if (o > 0 and o < n and s[o] == "\n") else o
        if n == 0:
            wn = 0
        if rn != wn:
            return "ren_noeol(%d)=%d want %d" % (i, rn, wn)
    starts = sorted(set(pos[:n]))
    for col in range(total + 3):
        ro, rc, rnx, rpv = r[3][4 * col: 4 * col + 4]
        le = [x for x in starts if x <= col]
        cur = max(le) if le else -1
        # ren_off: the character whose cells contain col (last index among equal starts), 0 when none
        if cur >= 0:
            wo = max(i for i in range(n) if pos[i] == cur)
        else:
            wo = 0
        if ro != wo:
            return "ren_off(%d)=%d want %d" % (col, ro, wo)
        if n:
            right = [x for x in starts if x > cur]
            left = [x for x in starts if x < cur]

            def tgt(x):
                if x is None:
                    return -1
                ch = max(i for i in range(n) if pos[i] == x)
                return -1 if s[ch] == "\n" else x
            wnx = tgt(min(right) if right else None) if cur >= 0 else None
            wpv = tgt(max(left) if left else None) if cur >= 0 else None
            if cur >= 0 and rnx != wnx:
                return "ren_next(%d,+1)=%d want %d" % (col, rnx, wnx)
            if cur >= 0 and rpv != wpv:
                return "ren_next(%d,-1)=%d want %d" % (col, rpv, wpv)
            # ren_cursor: last cell of the character under col; on the terminator: of the character before it
            if cur >= 0:
                pc = cur
                if s[wo] == "\n":
                    lf = [x for x in starts if x < pc]
                    pc = max(lf) if lf else -1
                nx = [x for x in starts if x > pc]
                wc = (min(nx) if nx else total) - 1
                wc = max(wc, 0)
                if rc != wc:
                    return "ren_cursor(%d)=%d want %d" % (col, rc, wc)
    # (3) round trip for every character
    for i in range(n):
        if t.cwid(cps[i], pos[i]) > 0:
            back = r[3][4 * pos[i]]
            if back != i and not any(pos[j] == pos[i] and j != i for j in range(n)):
                return "ren_off(ren_pos(%d))=%d" % (i, back)
    return None


def run_case(env, c):
    p = probe.get(env)
    t = tables(env)
    s = c["s"]
    nt = any((ch == "\t" and i % 8) or ord(ch) >= 0x600 for i, ch in enumerate(s))
    try:
        why = check_line(p, t, c)
    except probe.ProbeCrash as e:
        return Outcome(False, nt, ["probe_crash"], detail={"why": "memory error in the renderer", "err": e.err[-1500:], "case": c})
    cl = ["order_%d" % c["order"], "rtl" if any(ch in t.cr2l for ch in s) else "ltr_only"]
    if why:
        return Outcome(False, nt, cl, detail={"why": why, "case": c})
    return Outcome(True, nt, cl)


def extra(env, tier, seed):
    t = layout.Tables(env.paths["src"])
    p = probe.Probe(env.paths["psrv"], timeout=120)
    viol = []
    n = 0
    bad = t.sorted_ok()
    if bad:
        viol.append({"case": {"kind": "tables", "bad": bad}})
    step = 0x8000
    for lo in range(0, 0x110000, step):
        out = p.call_raw("wid %d %d" % (max(lo, 1), lo + step))
        base = max(lo, 1)
        for k, ch in enumerate(out):
            c = base + k
            if ch == "x":
                continue
            n += 1
            v = ord(ch) - 65
            want = t.wid(c) | (4 if t.isbell(c) else 0) | (8 if t.iscomb(c) else 0)
            if v != want and len(viol) < 3:
                viol.append({"case": {"kind": "cp", "cp": c}})
    # the width the LAYOUT gives every code point (ren_cwid: tab, placeholder table, bell placeholder, width class), which is what
    # the tiling is built from; a shortcut in front of the table look-ups must not change it for any code point
    n2 = 0
    for lo in range(0, 0x110000, step):
        base = max(lo, 1)
        out = p.call_raw("cwid %d %d" % (base, lo + step))
        for k, ch in enumerate(out):
            c = base + k
            if ch == "x" or c == 10:
                continue
            n2 += 1
            if int(ch) != t.cwid(c, 0) and len(viol) < 6:
                viol.append({"case": {"kind": "cwid", "cp": c}})
    p.close()
    return [{"name": "layout_cell_width_of_every_code_point", "exhaustive": True, "evaluations": n2, "distinct_nontrivial": n2,
             "samples": ["U+0009", "U+1100", "U+200C", "U+064E", "U+20001"], "violations": [v for v in viol if v["case"].get("kind") == "cwid"]},
            {"name": "width_class_of_every_code_point", "exhaustive": True, "evaluations": n, "distinct_nontrivial": n,
             "samples": ["U+0009", "U+0301", "U+65E5", "U+200C", "U+1F600"], "violations": [v for v in viol if v["case"].get("kind") != "cwid"]}]


def run_vicase(env, c):
    t = tables(env)
    v = vim.Vi(c["lines"], 24, t)
    v.td, v.order, v.lim = c["td"], c["order"], c["lim"]
    keys = ":se td=%d\n:se order=%d\n:se lim=%d\n" % (c["td"], c["order"], c["lim"])
    row = min(c["row"], len(c["lines"]) - 1)
    rtl = reord = False
    try:
        v.move("G", row + 1)
        v.move("0")
        keys += "%dG0" % (row + 1)
        if c["off"]:
            v.move(" ", c["off"])
            keys += "%d " % c["off"]
        for key, cnt, _ in c["steps"]:
            if key in (":esc", "/esc", ":nop"):
                keys += {":esc": ":se td=2\x1b", "/esc": "/ab\x1b", ":nop": ":ec x\n"}[key]
                v.col = v.off2col(v.row, v.off) if key == ":nop" else v.col      # (a successful : command recomputes the remembered column)
                continue
            v.move(key, cnt, None)
            keys += (str(cnt) if cnt else "") + key
            if v.context(v.row) < 0:
                rtl = True
            if v.visual(v.row) != list(range(v.slen(v.row))):
                reord = True
    except vim.Unmodelled:
        return Outcome(True, False, ["vi_unmodelled"])
    nt = reord and any(k in ("h", "l", "|") for k, _, _ in c["steps"])
    cl = ["vi", "vi_rtl_context" if rtl else "vi_ltr_context", "vi_reordered" if reord else "vi_logical"]
    r, out, cur, _ = viutil.run_vi(env, c["lines"], keys, rows=24, cols=100, want_stats=False)
    if r.timeout:
        return Outcome(True, False, cl + ["timeout"], inconclusive=True)
    if r.crashed():
        return Outcome(False, nt, cl, detail={"why": "editor crashed", "sig": r.signature(), "keys": keys})
    if out is None or cur is None:
        return Outcome(False, nt, cl, detail={"why": "no output / marker", "keys": keys})
    if out != c["lines"]:
        return Outcome(False, nt, cl, detail={"why": "motions changed the text", "keys": keys, "got": out})
    if cur != (v.row, v.off):
        return Outcome(False, nt, cl, detail={"why": "cursor at %r, the layout model says %r" % (cur, (v.row, v.off)), "keys": keys, "case": c})
    return Outcome(True, nt, cl)


_rc = run_case


def run_case(env, c):  # noqa: F811
    if c.get("kind") == "vi":
        return run_vicase(env, c)
    if c.get("kind") == "cp":
        p = probe.get(env)
        t = tables(env)
        ch = p.call_raw("wid %d %d" % (c["cp"], c["cp"] + 1))
        v = ord(ch[0]) - 65
        want = t.wid(c["cp"]) | (4 if t.isbell(c["cp"]) else 0) | (8 if t.iscomb(c["cp"]) else 0)
        return Outcome(v == want, True, ["cp"], detail={"why": "U+%04X: wid|bell<<2|comb<<3 = %d, tables say %d" % (c["cp"], v, want)})
    if c.get("kind") == "cwid":
        p = probe.get(env)
        t = tables(env)
        ch = p.call_raw("cwid %d %d" % (c["cp"], c["cp"] + 1))
        return Outcome(int(ch[0]) == t.cwid(c["cp"], 0), True, ["cwid"],
                       detail={"why": "U+%04X is laid out in %s cell(s), its class / placeholder says %d" % (c["cp"], ch[0], t.cwid(c["cp"], 0))})
    if c.get("kind") == "tables":
        return Outcome(False, True, ["tables"], detail={"why": "width table not sorted / overlapping", "entries": c["bad"]})
    return _rc(env, c)
