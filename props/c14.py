"""C14 - substitute rewrites exactly the leftmost non-overlapping matches."""
from hypothesis import strategies as st

from engine.core import Outcome
from engine import runner
from models import rx, rxgen, utf8
from . import gen

ID = "C14"
LEVEL = "exploration"
RULE = ("Hypothesis: buffer of 1-6 lines (ASCII + multi-byte, biased to the pattern's characters) x range x pattern printed from a grammar AST "
        "(large share of empty-matching ones) x replacement over literals, \\0-\\9 (also unset / non-existent groups) and \\c escapes x g on/off x "
        "ic on/off x {plain, empty pattern reusing the previous one, bare :s repeat}.  Oracle: reference scan of the original line in whole-line "
        "context with models/rx.py.  Non-trivial = some addressed line matched >=2 times with g, or matched empty, or the replacement used a "
        "group; distinct by SHA-1 of the case")
ASSUMPTIONS = ["reference: leftmost match at or after the scan position judged against the whole line, replacement expanded from the chosen parse, "
               "one character copied after an empty match, scan stops at the line terminator (calibrated: no match is attempted at the end of "
               "the line after the first one)", "cases in which the engine's depth limit was hit are discarded (hook counter)",
               "known finding F10: word boundaries are judged against the rest of the line where the scan resumed"]

REPL_LIT = ["x", "Y", "-", " ", "é", "日", "/", "\\", "&", "1", "(", ".", "*"]


def prepare(build, tier):
    return {"vi": build.vi_plain()}


def budget(tier):
    return (1500, 16) if tier == "quick" else (25000, 16)


EMPTYISH = [["rep", ["lit", "x"], 0, -1], ["bol"], ["eol"], ["wb"], ["we"], ["grp", None], ["rep", ["lit", "a"], 0, 1], ["rep", ["any"], 0, -1],
            ["cat", [["wb"], ["lit", "a"]]], ["cat", [["lit", "a"], ["we"]]], ["cat", [["bol"], ["lit", "a"]]], ["rep", ["grp", ["lit", "ab"]], 0, -1],
            ["alt", [["lit", "a"], ["grp", None]]], ["cat", [["bol"], ["rep", ["lit", " "], 0, -1], ["eol"]]]]
MULTIGRP = [["cat", [["grp", ["lit", "a"]], ["grp", ["lit", "b"]], ["grp", ["rep", ["lit", "c"], 0, -1]]]],
            ["cat", [["grp", ["any"]], ["grp", ["any"]], ["grp", ["any"]], ["grp", ["any"]]]],
            ["cat", [["grp", ["alt", [["lit", "a"], ["grp", ["lit", "b"]]]]], ["grp", ["rep", ["lit", "c"], 0, 1]]]],
            ["grp", ["cat", [["grp", ["lit", "a"]], ["grp", ["rep", ["brk", False, [["r", "a", "c"]]], 1, -1]]]]],
            ["cat", [["grp", ["rep", ["brk", False, [["k", "alpha"]]], 1, -1]], ["lit", " "], ["grp", ["rep", ["brk", False, [["k", "alpha"]]], 1, -1]]]],
            ["rep", ["grp", ["alt", [["grp", ["lit", "a"]], ["grp", ["lit", "b"]]]]], 1, -1],
            # groups AFTER bracket expressions whose members are characters special elsewhere: the group numbers used by \N come from a
            # separate scanner of the pattern text, which has to skip brackets exactly as the parser does
            ["cat", [["lit", "a"], ["brk", False, [["c", "\\"]]], ["grp", ["lit", "b"]]]],
            ["cat", [["grp", ["brk", False, [["r", "a", "z"]]]], ["brk", False, [["c", "\\"]]], ["grp", ["brk", False, [["r", "a", "z"]]]]]],
            ["cat", [["brk", True, [["c", "b"], ["c", "\\"]]], ["grp", ["lit", "b"]], ["grp", ["any"]]]],
            ["cat", [["brk", False, [["c", "a"], ["c", "["], ["c", "*"]]], ["grp", ["lit", "b"]]]],
            ["cat", [["brk", False, [["c", "["], ["c", "="], ["c", "a"]]], ["grp", ["any"]], ["brk", False, [["c", "("]]], ["grp", ["any"]]]],
            ["cat", [["brk", False, [["c", "("], ["c", "a"]]], ["grp", ["lit", "b"]]]]]


@st.composite
def case(draw):
    pat = draw(st.one_of(rxgen.pattern_ast, rxgen.pattern_ast, st.sampled_from(EMPTYISH), st.sampled_from(MULTIGRP)))
    nl = draw(st.integers(1, 6))
    lines = [draw(rxgen.line_for([pat], 12)) for _ in range(nl)]
    a = draw(st.integers(1, nl))
    b = draw(st.integers(a, nl))
    parts = draw(st.lists(st.one_of(st.sampled_from(REPL_LIT).map(lambda c: ["l", c]), st.sampled_from([0, 1, 1, 2, 2, 3, 3, 4, 5, 9]).map(lambda d: ["g", d])), max_size=4))
    kind = draw(st.sampled_from(["plain", "plain", "plain", "reuse", "repeat"]))
    return {"lines": lines, "a": a, "b": b, "pat": pat, "repl": parts, "g": draw(st.booleans()), "ic": draw(st.booleans()), "kind": kind,
            "c": draw(st.integers(1, nl))}


def strategy(tier):
    return case()


def typed_repl(parts):
    out = []
    for k, v in parts:
        if k == "g":
            out.append("\\%d" % v)
        elif v == "/":
            out.append("\\/")
        elif v == "\\":
            out.append("\\\\")
        else:
            out.append(v)
    return "".join(out)


def expand(parts, caps, base_idx, line, whole):
    out = []
    for k, v in parts:
        if k == "l":
            out.append(v)
        else:
            if v == 0:
                out.append(line[whole[0]:whole[1]])
            else:
                sp = caps.get(base_idx + v)
                if sp:
                    out.append(line[sp[0]:sp[1]])
    return "".join(out)


def subst_line(line, root, repl, g, icase, mode="whole"):
    """reference; returns (new line, nmatches, had_empty, cut_possible)"""
    n = len(line)
    out = []
    pos = 0
    cnt = 0
    empty = False
    ctx = rx.Ctx(line, icase)
    first = True
    while True:
        if mode == "whole":
            m = rx.search_prio(root, ctx, pos, line_mode=True)
        else:   # what the implementation does: the rest of the line is matched as a string of its own (NOTBOL after the first round)
            sub = rx.Ctx(line[pos:], icase, notbol=pos > 0)
            m = rx.search_prio(root, sub, 0, line_mode=True)
            if m:
                m = (m[0] + pos, m[1] + pos, {k: (v[0] + pos, v[1] + pos) for k, v in m[2].items()})
        if m is None:
            break
        s, e, caps = m
        cnt += 1
        out.append(line[pos:s])
        out.append(expand(repl, caps, root.idx, line, (s, e)))
        pos = e
        if e == s:
            empty = True
            if pos < n:
                out.append(line[pos])
            pos += 1
        if pos >= n or not g:
            break
    out.append(line[pos:] if pos <= n else "")
    return "".join(out), cnt, empty


def run_case(env, c):
    d = env.fresh()
    node = rxgen.from_json(c["pat"])
    pat = rx.to_pattern(node)
    pj, used = rxgen.parse(pat)
    if used != len(pat) or rxgen.normalize(pj) != rxgen.normalize(c["pat"]):
        return Outcome(True, False, ["excluded_print_parse_mismatch"])
    if pat == "":
        return Outcome(True, False, ["excluded_empty_pattern"])
    root = rx.grp(node)
    rx.number_groups(root, 0)        # root = group 0 (whole match); user groups 1..
    runner.write_file(d, "f", gen.to_bytes(c["lines"]))
    tp = gen.delim_escape(pat, "/")
    tr = typed_repl(c["repl"])
    fl = "g" if c["g"] else ""
    a, b = c["a"], c["b"]
    script = "se %sic\n" % ("" if c["ic"] else "no")
    lines = list(c["lines"])
    stats = {"n": 0, "empty": False, "multi": False}

    def apply(lo, hi, g, mode):
        res = list(lines)
        for i in range(lo - 1, hi):
            new, cnt, emp = subst_line(res[i], root, c["repl"], g, c["ic"], mode)
            stats["n"] += cnt
            stats["empty"] |= emp
            stats["multi"] |= cnt >= 2
            res[i] = new
        return res
    if c["kind"] == "plain":
        script += "%d,%ds/%s/%s/%s\n" % (a, b, tp, tr, fl)
        want = apply(a, b, c["g"], "whole")
        alt = apply(a, b, c["g"], "suffix")
    elif c["kind"] == "reuse":
        script += "1s/%s/\\0/\n%d,%ds//%s/%s\n" % (tp, a, b, tr, fl)
        want = apply(a, b, c["g"], "whole")
        alt = apply(a, b, c["g"], "suffix")
    else:
        script += "%d,%ds/%s/%s/%s\n%ds\n" % (a, b, tp, tr, fl, c["c"])
        want = apply(a, b, c["g"], "whole")
        alt = apply(a, b, c["g"], "suffix")
        lines2 = lines
        lines = want
        want = apply(c["c"], c["c"], False, "whole")
        lines = alt
        alt = apply(c["c"], c["c"], False, "suffix")
        lines = lines2
    script += "%w! out\n"
    r = runner.run_editor(env.paths["vi"], ["-s", "-e", "f"], script.encode("utf-8") + runner.EX_TRAILER, d)
    nt = stats["multi"] or stats["empty"] or (any(k == "g" for k, _ in c["repl"]) and stats["n"] > 0)
    cl = ["kind_" + c["kind"], "matched" if stats["n"] else "nomatch"] + (["empty_match"] if stats["empty"] else [])
    if r.timeout:
        return Outcome(True, False, cl + ["timeout"], inconclusive=True)
    if r.crashed():
        return Outcome(False, nt, cl, detail={"why": "editor crashed", "sig": r.signature(), "script": script})
    if r.depcut:
        return Outcome(True, False, cl + ["depth_limit_hit_discarded"])
    out = runner.read_file(d, "out")
    wantb = gen.to_bytes(want)
    if out != wantb:
        det = {"why": ":s result differs from the reference scan", "script": script, "lines": c["lines"], "got": out, "want": wantb}
        haswb = rx.has(node, lambda x: x.k in ("wb", "we"))
        if haswb and out == gen.to_bytes(alt):
            return Outcome(False, nt, cl + ["F10"], known="F10", detail=det)
        return Outcome(False, nt, cl, detail=det)
    if out is not None and not utf8.valid(out):
        return Outcome(False, nt, cl, detail={"why": "result is not valid UTF-8", "got": out})
    return Outcome(True, nt, cl)
