"""C03 - writes never clobber foreign or newer files; failures surface and stay dirty."""
import itertools
import os
import re
import time
from concurrent.futures import ThreadPoolExecutor

from hypothesis import strategies as st

from engine.core import Outcome
from engine import runner

ID = "C03"
LEVEL = "fault_enumeration"
RULE = ("(a) enumerated guard matrix: target in {own path, other path} x existence in {never, yes, deleted since read, created since read} x "
        "modification time vs recorded in {older, equal, newer} x ! in {no, yes} x command in {w, 1,$w, wq, x, xa} x buffer dirty in {no, yes} "
        "(external changes made by the script itself through :rx shell steps); (b) enumerated single faults: every position of the "
        "open/write/close sequence of a write (taken from a fault-free counting run under the LD_PRELOAD shim) x every fault kind (open: EACCES "
        "EMFILE ENOSPC; write: ENOSPC EIO EINTR EDQUOT, short count 1 / 100; close: EIO ENOSPC EINTR) x buffer shapes {0 lines, 1 line, one 4096-byte "
        "batch -1/0/+1, three batches, a 5000-byte line between short ones, 600 lines} x command in {w, wq, xa}; (c) Hypothesis: plans of 2-4 faults.  "
        "Non-trivial = a fault that was actually reached (shim log) or a guard case in which refusal is expected; distinct by the case")
ASSUMPTIONS = ["faults are injected with an LD_PRELOAD interposer on open/open64/write/close of the target path (plain build); ftruncate errors and a "
               "write() returning 0 forever are outside the statement's fault list", "modification times are set explicitly far in the past/future "
               "(1 s granularity of st_mtime)", "a retry after a failed write uses :w! because the failed write legitimately advanced the file's mtime"]

E = {"EACCES": 13, "EMFILE": 24, "ENOSPC": 28, "EIO": 5, "EINTR": 4, "EDQUOT": 122}


def prepare(build, tier):
    return {"vi": build.vi_plain(), "shim": build.shim("fishim")}


def budget(tier):
    return (350, 16) if tier == "quick" else (5000, 16)


SHAPES = {
    "zero": ["x"],
    "one": ["abc"],
    "batch-1": ["a" * 1023] * 3 + ["a" * 1022],
    "batch0": ["a" * 1023] * 4,
    "batch+1": ["a" * 1023] * 3 + ["a" * 1024],
    "three": ["b" * 1023] * 12,
    "bigline": ["s1", "L" * 5000, "s2"],
    "lines600": ["line%04d" % i for i in range(600)],
}


def shape_text(name):
    ls = list(SHAPES[name])
    if name == "zero":
        return ls, [], "1d\n"
    new = list(ls)
    new[0] = "Z" + new[0][1:]
    return ls, new, "1s/^./Z/\n"


def run_fault(env, shape, cmd, plan, count_only=False):
    d = env.fresh()
    orig, text, pre = shape_text(shape)
    runner.write_file(d, "f", "".join(l + "\n" for l in orig).encode())
    runner.write_file(d, "g", b"other\n")
    argv = ["-s", "-e", "f"] + (["g"] if cmd == "xa" else [])
    script = pre + cmd + "\nec @@1@@\nq\nec @@2@@\nw!\nec @@3@@\nq\nec @@4@@\n"
    envx = {"LD_PRELOAD": env.paths["shim"], "NVFI_PATH": "f", "NVFI_LOG": os.path.join(d, ".log")}
    if plan:
        envx["NVFI_PLAN"] = ",".join("%d:%s" % (i, k) for i, k in plan)
    r = runner.run_editor(env.paths["vi"], argv, script.encode() + runner.EX_TRAILER, d, env_extra=envx, want_stats=False)
    log = (runner.read_file(d, ".log") or b"").decode().split("\n")[:-1]
    return r, log, runner.read_file(d, "f"), "".join(l + "\n" for l in text).encode()


def check_fault(env, c):
    shape, cmd, plan = c["shape"], c["cmd"], [tuple(p) for p in c["plan"]]
    r, log, fbytes, want = run_fault(env, shape, cmd, plan)
    if r.timeout:
        return Outcome(True, False, ["timeout"], inconclusive=True)
    if r.crashed():
        return Outcome(False, True, ["crash"], detail={"why": "editor crashed", "sig": r.signature()})
    out = r.out.decode("utf-8", "replace")
    first = []
    for l in log:
        first.append(l)
        if l.startswith("close") or l == "open FAULT":
            break
    rest = log[len(first):]
    retry_faulted = any(l.endswith("FAULT") or l.endswith("SHORT") for l in rest)
    had_error = any(l.endswith("FAULT") for l in first)
    had_short = any(l.endswith("SHORT") for l in first)
    nt = had_error or had_short
    cl = ["shape_" + shape, "cmd_" + cmd, "error_reached" if had_error else ("short_only" if had_short else "no_fault_reached")]
    seg1 = out.split("@@1@@")[0]
    alive1 = "@@1@@" in out

    def fail(why):
        return Outcome(False, nt, cl, detail={"why": why, "case": c, "log_first_write": first[:12], "stdout": out[-300:]})
    if had_error:
        if "[w]" in seg1.split("[r]")[-1]:
            return fail("the command reported success although a system call failed")
        if "write failed" not in seg1:
            return fail("failure of open/write/close was not reported")
        if not alive1:
            return fail("%s exited although the write failed" % cmd)
        if "@@2@@" not in out:
            return fail(":q was not refused after a failed write (buffer not dirty)")
        seg3 = out.split("@@2@@")[1].split("@@3@@")[0] if "@@3@@" in out else ""
        if retry_faulted:
            return Outcome(True, nt, cl + ["retry_also_faulted_not_judged"], key="%s|%s|%s" % (shape, cmd, plan))
        if "[w]" not in seg3:
            return fail("retry with :w! did not succeed")
        if fbytes != want:
            return fail("after the successful retry the file does not hold the buffer's text")
        if "@@4@@" in out:
            return fail(":q refused although the retry succeeded")
    else:
        if "[w]" not in seg1.split("[r]")[-1] and not (cmd == "xa"):
            return fail("no fault reached but no success reported")
        if fbytes != want:
            return fail("success reported but the file does not hold exactly the written lines (short counts must be retried)")
        if cmd in ("wq", "xa") and alive1:
            return fail("%s did not exit after a successful write" % cmd)
        if cmd == "w" and "@@2@@" in out:
            return fail(":q refused after a successful write")
    return Outcome(True, nt, cl, key="%s|%s|%s" % (shape, cmd, plan))


# ------------------------------------------------------------------ guard matrix
def run_guard(env, c):
    """c: target own/other, exist never/yes/deleted/created, mt older/equal/newer, bang, cmd, dirty"""
    d = env.fresh()
    own = c["target"] == "own"
    tname = "f" if own else "t"
    # state at read time
    f_exists_at_read = not (own and c["exist"] in ("never", "created"))
    if f_exists_at_read or not own:
        runner.write_file(d, "f", b"l1\nl2\nl3\n")
        os.utime(os.path.join(d, "f"), (1000000000, 1000000000))
    if not own and c["exist"] in ("yes", "deleted"):
        runner.write_file(d, "t", b"foreign\n")
        os.utime(os.path.join(d, "t"), (1000000000, 1000000000))
    script = "rs a\nx\n.\n"
    if c["dirty"]:
        script += "$a\nNEW\n.\n"
    text = b"l1\nl2\nl3\n" if f_exists_at_read or not own else b""
    if c["dirty"]:
        text += b"NEW\n"
    # external change after the read
    tpath = tname
    if c["exist"] == "deleted":
        script += "rx a rm -f %s\n" % tpath
    elif c["exist"] == "created":
        script += "rx a sh -c 'echo foreign > %s'\n" % tpath
    # ("ancient": before the epoch, i.e. a negative st_mtime - an existence test must not be built on the sign of a time stamp)
    stamp = {"older": "2000-01-01", "equal": None, "newer": "2040-01-01", "ancient": "'1969-12-31 12:00 UTC'"}[c["mt"]]
    if stamp and c["exist"] in ("yes", "created"):
        script += "rx a touch -d %s %s\n" % (stamp, tpath)
    # (% is the current file name in ex command arguments: escaped)
    script += "rx a sh -c 'stat -c \\%%Y.\\%%s %s > before 2>/dev/null; cp %s before.bytes 2>/dev/null; true'\n" % (tpath, tpath)
    bang = "!" if c["bang"] else ""
    cmd = c["cmd"]
    if cmd == "w":
        line = "w%s%s" % (bang, "" if own else " t")
    elif cmd == "range":
        line = "1,$w%s%s" % (bang, "" if own else " t")
    elif cmd == "wq":
        line = "wq%s%s" % (bang, "" if own else " t")
    elif cmd == "x":
        line = "x%s%s" % (bang, "" if own else " t")
    else:
        line = "xa%s" % bang
    script += line + "\nec @@1@@\n"
    r = runner.run_editor(env.paths["vi"], ["-s", "-e", "f"], script.encode() + runner.EX_TRAILER, d, want_stats=False)
    out = r.out.decode("utf-8", "replace")
    exists_now = c["exist"] in ("yes", "created") if not (own and c["exist"] == "never") else False
    if own and c["exist"] == "yes":
        exists_now = True
    newer = exists_now and ((own and c["exist"] == "created") or c["mt"] == "newer" or (not own))
    # expected refusal: no '!' and (file exists but is not the one being edited, or newer than recorded, or appeared since)
    expect_refuse = (not c["bang"]) and exists_now and (not own or c["mt"] == "newer" or c["exist"] == "created")
    writes = not (cmd == "x" and not c["dirty"]) and not (cmd == "xa" and not own)
    if cmd == "xa":
        expect_refuse = (not c["bang"]) and own and exists_now and (c["mt"] == "newer" or c["exist"] == "created")
    nt = expect_refuse and writes
    cl = ["guard", "expect_refuse" if (expect_refuse and writes) else "expect_allow"]
    if r.timeout:
        return Outcome(True, False, cl + ["timeout"], inconclusive=True)
    if r.crashed():
        return Outcome(False, nt, cl, detail={"why": "editor crashed", "sig": r.signature()})
    before = runner.read_file(d, "before")
    bbytes = runner.read_file(d, "before.bytes")
    after = runner.read_file(d, tpath)
    seg = out.split("@@1@@")[0]

    def fail(why):
        return Outcome(False, nt, cl, detail={"why": why, "case": c, "cmdline": line, "stdout": out[-300:]})
    if not writes:
        return Outcome(True, False, cl + ["no_write_expected"], key=str(sorted(c.items())))
    if expect_refuse:
        if after != bbytes:
            return fail("a file that must not be replaced without '!' was modified")
        try:
            st_ = os.stat(os.path.join(d, tpath))
            if before and ("%d.%d" % (int(st_.st_mtime), st_.st_size)).encode() != before.strip():
                return fail("mtime/size of the protected file changed")
        except FileNotFoundError:
            return fail("protected file vanished")
        if "write failed" not in seg:
            return fail("refusal not reported")
        if cmd in ("wq", "x", "xa") and "@@1@@" not in out:
            return fail("%s exited although the write was refused" % cmd)
    else:
        if after != text:
            return fail("allowed write did not produce exactly the buffer's lines")
        if "[w]" not in seg.split("[r]")[-1] and cmd != "xa":
            return fail("allowed write not reported as success")
    return Outcome(True, nt, cl, key=str(sorted(c.items())))


def guard_cases():
    for target, exist, mt, bang, cmd, dirty in itertools.product(("own", "other"), ("never", "yes", "deleted", "created"), ("older", "equal", "newer", "ancient"),
                                                                  (False, True), ("w", "range", "wq", "x", "xa"), (False, True)):
        if exist in ("never", "deleted") and mt != "equal":
            continue
        if cmd == "range" and target == "own" and exist in ("never", "created") and not dirty:
            continue        # 1,$ does not resolve on an empty buffer: nothing is written (C06's subject)
        yield {"kind": "guard", "target": target, "exist": exist, "mt": mt, "bang": bang, "cmd": cmd, "dirty": dirty}


def run_ghist(env, c):
    """histories: external modification of the edited file, writes to other paths, edits, plain and forced writes of the own file.
    The guard state must only be refreshed by a write of the file itself."""
    d = env.fresh()
    if c.get("link"):
        # the edited path is a symbolic link: the guard is about the file it names (its times, not the link's own)
        runner.write_file(d, "real", b"l1\nl2\n")
        os.symlink("real", os.path.join(d, "f"))
    else:
        runner.write_file(d, "f", b"l1\nl2\n")
    os.utime(os.path.join(d, "f"), (1000000000, 1000000000))
    text = [b"l1", b"l2"]
    disk = b"l1\nl2\n"
    newer = False
    script = "rs a\nx\n.\n" + ("se aw\n" if c.get("aw") else "")
    expect = []
    ext_n = 0
    recorded_now = False
    dirty = False
    for i, st_ in enumerate(c["steps"]):
        if st_ == "leave":
            # leaving a modified buffer (with autowrite: an implicit write without '!') while the file is newer on disk: refused,
            # the file stays as it is - also at the second attempt
            if newer and dirty:
                script += "ec @@A%d@@\ne g\nec @@B%d@@\nrx a cp f snap%d\n" % (i, i, i)
                expect.append((i, "leave", disk))
            elif c.get("aw") and dirty:
                # autowrite of a file nobody else touched: it is written - also the second time, which needs the first autowrite to
                # have recorded its own write (time and saved state) - and the buffer is left
                script += "ec @@A%d@@\ne g\nec @@B%d@@\nrx a cp f snap%d\ne f\n" % (i, i, i)
                disk = b"".join(l + b"\n" for l in text)
                dirty = False
                recorded_now = True
                expect.append((i, "autowrite", disk))
            continue
        if st_ == "efail":
            # a reload (:e!) whose read fails (shim: EIO while the flag file exists) keeps the buffer - and must keep the recorded time of
            # the version the buffer came from: the version on disk was never read
            script += "rx a touch RFLAG\ne!\nrx a rm RFLAG\n"
            continue
        if st_ == "ext":
            ext_n += 1
            # newer than what the editor recorded, but - while the editor has not written the file itself - older than "now":
            # a guard state wrongly refreshed from the clock or from another file's time then lets the write through
            script += "rx a sh -c 'echo ext%d >> f; touch -d %s-01-%02d f'\n" % (i, "2040" if recorded_now else "2020", min(28, ext_n))
            disk += b"ext%d\n" % i
            newer = True
        elif st_ == "wother":
            script += "w! o%d\n" % (i % 2)
        elif st_ == "wother_plain":
            script += "w p%d\n" % i
        elif st_ == "edit":
            script += "$a\nt%d\n.\n" % i
            text.append(b"t%d" % i)
            dirty = True
        elif st_ in ("wown", "wownf"):
            script += "ec @@A%d@@\nw%s\nec @@B%d@@\nrx a cp f snap%d\n" % (i, "!" if st_ == "wownf" else "", i, i)
            refused = newer and st_ == "wown"
            if not refused:
                disk = b"".join(l + b"\n" for l in text)
                newer = False
                recorded_now = True
                dirty = False
            expect.append((i, refused, disk))
    r = runner.run_editor(env.paths["vi"], ["-s", "-e", "f"], script.encode() + runner.EX_TRAILER, d, want_stats=False,
                          env_extra={"LD_PRELOAD": env.paths["shim"], "NVFI_RPATH": "f", "NVFI_RFLAG": os.path.join(d, "RFLAG")} if "efail" in c["steps"] else None)
    nt = any(e[1] for e in expect)
    cl = ["ghist", "refusal_expected" if nt else "no_refusal"]
    if r.timeout:
        return Outcome(True, False, cl + ["timeout"], inconclusive=True)
    if r.crashed():
        return Outcome(False, nt, cl, detail={"why": "editor crashed", "sig": r.signature()})
    out = r.out.decode("utf-8", "replace")
    for i, refused, want in expect:
        m = re.search(r"@@A%d@@(.*?)@@B%d@@" % (i, i), out, re.S)
        seg = m.group(1) if m else ""
        got = runner.read_file(d, "snap%d" % i)
        if refused == "autowrite":
            if got != want:
                return Outcome(False, nt, cl, detail={"why": "step %d: leaving the modified buffer with autowrite set did not write it to its (untouched) file" % i,
                                                      "steps": c["steps"], "file": got, "want": want})
            continue
        if refused == "leave":
            if got != want:
                return Outcome(False, nt, cl, detail={"why": "step %d: leaving the modified buffer (:e g%s) replaced the file although it was modified from outside" %
                                                      (i, ", autowrite set" if c.get("aw") else ""), "steps": c["steps"], "file": got, "expected_untouched": want})
            continue
        if refused:
            if got != want:
                return Outcome(False, nt, cl, detail={"why": "step %d: a plain :w replaced the file although it was modified from outside since the editor "
                                                             "read or wrote it" % i, "steps": c["steps"], "file": got, "expected_untouched": want})
            if "write failed" not in seg:
                return Outcome(False, nt, cl, detail={"why": "step %d: refusal not reported" % i, "steps": c["steps"]})
        else:
            if got != want:
                return Outcome(False, nt, cl, detail={"why": "step %d: allowed write did not produce the buffer's lines" % i, "steps": c["steps"], "file": got, "want": want})
    return Outcome(True, nt, cl + (["autowrite"] if c.get("aw") else []), key=",".join(c["steps"]) + ("|aw" if c.get("aw") else "") + ("|link" if c.get("link") else ""))


def run_case(env, c):
    if c["kind"] == "guard":
        return run_guard(env, c)
    if c["kind"] == "ghist":
        return run_ghist(env, c)
    return check_fault(env, c)


plan_item = st.tuples(st.integers(0, 12), st.sampled_from(["E28", "E5", "E4", "E122", "S1", "S100", "S7", "S4000", "E13", "E24"]))


@st.composite
def rnd_case(draw):
    return {"kind": "fault", "shape": draw(st.sampled_from(sorted(SHAPES))), "cmd": draw(st.sampled_from(["w", "w", "wq"])),      # (:xa writes the file twice: positions beyond the first write are enumerated, not random)
            "plan": [list(p) for p in sorted(set(draw(st.lists(plan_item, min_size=2, max_size=4))))]}


ghist_case = st.tuples(st.lists(st.sampled_from(["ext", "ext", "wother", "wother", "wother_plain", "edit", "edit", "wown", "wown", "wownf", "leave", "leave", "efail"]),
                                 min_size=2, max_size=10), st.booleans(), st.integers(0, 3)).map(lambda t: {"kind": "ghist", "steps": t[0], "aw": t[1], "link": t[2] == 0})


def strategy(tier):
    return st.one_of(rnd_case(), ghist_case)


def extra(env, tier, seed):
    from engine.core import Env
    res = []
    # (a) guard matrix
    cases = list(guard_cases())
    root = os.path.dirname(env.root)

    def worker(args):
        idx, chunk = args
        e = Env(env.paths, os.path.join(root, "g%d" % idx), tier, seed)
        os.makedirs(e.root, exist_ok=True)
        outl = []
        for c in chunk:
            o = run_case(e, c)
            outl.append((c, o))
        return outl
    chunks = [(i, cases[i::16]) for i in range(16)]
    viol, nt, n = [], 0, 0
    with ThreadPoolExecutor(16) as ex:
        for outl in ex.map(worker, chunks):
            for c, o in outl:
                n += 1
                nt += bool(o.nontrivial)
                if not o.ok and len(viol) < 3:
                    viol.append({"case": c})
    res.append({"name": "guard_matrix", "exhaustive": True, "evaluations": n, "distinct_nontrivial": nt,
                "samples": [cases[0], cases[len(cases) // 2]], "violations": viol})
    # (b) single-fault enumeration
    fcases = []
    e0 = Env(env.paths, os.path.join(root, "cnt"), tier, seed)
    os.makedirs(e0.root, exist_ok=True)
    seqs = {}
    for shape in SHAPES:
        for cmd in ("w", "wq", "xa"):
            r, log, _, _ = run_fault(e0, shape, cmd, [])
            first = []
            for l in log:
                first.append(l)
                if l.startswith("close"):
                    break
            seqs["%s/%s" % (shape, cmd)] = first
            for i, l in enumerate(first):
                if l.startswith("open"):
                    kinds = ["E13", "E24", "E28"]
                elif l.startswith("write"):
                    kinds = ["E28", "E5", "E4", "E122", "S1", "S100"]
                else:
                    kinds = ["E5", "E28", "E4"]
                for k in kinds:
                    fcases.append({"kind": "fault", "shape": shape, "cmd": cmd, "plan": [[i, k]]})
    chunks = [(100 + i, fcases[i::16]) for i in range(16)]
    viol, nt, n = [], 0, 0
    with ThreadPoolExecutor(16) as ex:
        for outl in ex.map(worker, chunks):
            for c, o in outl:
                n += 1
                nt += bool(o.nontrivial)
                if not o.ok and len(viol) < 3:
                    viol.append({"case": c})
    res.append({"name": "single_fault_at_every_call_position", "exhaustive": True, "evaluations": n, "distinct_nontrivial": nt,
                "call_sequences": {k: v for k, v in list(seqs.items())[:6]}, "samples": fcases[:2] + fcases[-1:], "violations": viol})
    return res
