"""C13 - search lands on the first match after / last match before the cursor, no wrap."""
from hypothesis import strategies as st

from engine.core import Outcome
from models import rx, rxgen
from . import gen, viutil

ID = "C13"
LEVEL = "exploration"
RULE = ("Hypothesis: buffer of 1-8 lines (ASCII + multi-byte, repeated words, biased to the pattern's characters) x start cursor x sequence of "
        "1-5 of {/re, ?re, n, N, ^A} with counts x ic on/off; cursor observed by a marker character.  Reference: whole-line matching with "
        "models/rx.py.  Non-trivial = the buffer holds >=2 matches of some searched pattern, the start is not line 1 column 1, and a search "
        "either lands on the cursor's own line or fails; distinct by SHA-1 of the case")
ASSUMPTIONS = ["patterns typed at the ? prompt do not contain ? (the prompt cannot express it)", "search offsets (/re/+1) are not generated (outside the statement)",
               "known finding F10: after the cursor (forward) and between successive matches (backward) word boundaries are judged against the rest of the line",
               "^A picks the word under the cursor, or the one ending just before it (calibrated to vi_curword)"]

WORDPOOL = ["foo", "bar", "ab", "a", "foo1", "x_y", "é", "日本", "Foo", "aa"]


def prepare(build, tier):
    return {"vi": build.vi_plain()}


def budget(tier):
    return (1500, 16) if tier == "quick" else (25000, 16)


def _has_q(j):
    if j is None:
        return False
    if j[0] == "rep" and (j[2], j[3]) == (0, 1):
        return True
    if j[0] == "lit" and "?" in j[1]:
        return True
    if j[0] == "brk":
        return any(it[0] == "c" and it[1] == "?" for it in j[2])
    if j[0] == "grp":
        return _has_q(j[1])
    if j[0] in ("cat", "alt"):
        return any(_has_q(x) for x in j[1])
    if j[0] == "rep":
        return _has_q(j[1])
    return False


@st.composite
def case(draw):
    pats = [draw(st.one_of(rxgen.pattern_ast, st.sampled_from(WORDPOOL).map(lambda w: ["lit", w]),
                           st.sampled_from(WORDPOOL).map(lambda w: ["cat", [["wb"], ["lit", w]]]))) for _ in range(draw(st.integers(1, 2)))]
    nl = draw(st.integers(1, 8))
    word_line = st.lists(st.one_of(st.sampled_from(WORDPOOL), st.sampled_from([" ", " ", ".", "(", "-"])), max_size=8).map("".join)
    lines = [draw(st.one_of(rxgen.line_for(pats, 14), word_line)) for _ in range(nl)]
    row = draw(st.integers(0, nl - 1))
    off = draw(st.integers(0, 14))
    steps = []
    for _ in range(draw(st.integers(1, 5))):
        k = draw(st.integers(0, 9))
        cnt = draw(st.sampled_from([0, 0, 0, 1, 2, 3]))
        if k <= 2:
            steps.append(["/", cnt, draw(st.sampled_from([-1] + list(range(len(pats))) * 2))])      # -1: empty pattern = previous one, this direction
        elif k <= 4:
            steps.append(["?", cnt, draw(st.sampled_from([-1] + list(range(len(pats))) * 2))])
        elif k <= 6:
            steps.append(["n", cnt])
        elif k <= 8:
            steps.append(["N", cnt])
        else:
            steps.append(["A", cnt])
    for st_ in steps:       # line offsets: /pat/1 ?pat?-1 /pat/0 ; they stay in force for n and N, a plain search or ^A ends them
        if st_[0] in "/?" and st_[2] >= 0 and draw(st.integers(0, 4)) == 0:
            st_.append(draw(st.sampled_from([0, 1, -1, 2, -2])))
    seen = False
    for st_ in steps:       # an empty pattern needs a previous one (without one the editor searches for the empty pattern: not in the statement)
        if st_[0] in "/?":
            if st_[2] < 0 and not seen:
                st_[2] = 0
            seen = True
    return {"lines": lines, "row": row, "off": off, "pats": pats, "steps": steps, "ic": draw(st.booleans())}


def strategy(tier):
    return case().filter(lambda c: not any(s[0] == "?" and s[2] >= 0 and _has_q(c["pats"][s[2]]) for s in c["steps"]))


# ------------------------------------------------------------------ reference
def _fwd(lines, root, ic, r0, o0, mode):
    """first match that begins after the cursor character on its line, else first on a following line"""
    for r in range(r0, len(lines)):
        line = lines[r]
        if r == r0:
            if mode == "whole":
                m = rx.search_prio(root, rx.Ctx(line, ic), o0 + 1, line_mode=True)
                if m and m[0] <= len(line):
                    return r, m[0]
            elif o0 + 1 <= len(line):
                st_ = o0 + 1
                m = rx.search_prio(root, rx.Ctx(line[st_:], ic, notbol=True), 0, line_mode=True)
                if m:
                    return r, m[0] + st_
        else:
            m = rx.search_prio(root, rx.Ctx(line, ic), 0, line_mode=True)
            if m:
                return r, m[0]
    return None


def _bwd(lines, root, ic, r0, o0, mode):
    for r in range(r0, -1, -1):
        line = lines[r]
        pos = 0
        last = None
        while pos <= len(line):
            if mode == "whole":
                m = rx.search_prio(root, rx.Ctx(line, ic), pos, line_mode=True)
            else:
                m = rx.search_prio(root, rx.Ctx(line[pos:], ic, notbol=pos > 0), 0, line_mode=True)
                if m:
                    m = (m[0] + pos, m[1] + pos, m[2])
            if not m:
                break
            if r == r0 and m[0] >= o0:
                break
            last = m[0]
            pos = m[1] if m[1] > m[0] else m[1] + 1
            if pos >= len(line):
                break
        if last is not None:
            return r, last
    return None


def _kind(ch):
    if ch in " \t\n\r\v\f":
        return 0
    if ord(ch) > 127 or ch.isalnum() or ch == "_":
        return 1
    return 2


def _curword(line, off):
    if not line:
        return None
    off = min(off, len(line) - 1)
    b = e = off
    while e < len(line) and _kind(line[e]) == 1:
        e += 1
    while b > 0 and _kind(line[b - 1]) == 1:
        b -= 1
    if b >= e:
        return None
    return line[b:e]


def simulate(c, mode):
    lines = c["lines"]
    r = c["row"]
    o = min(c["off"], max(0, len(lines[r]) - 1))
    last = None      # (root, dir)
    so = None        # line offset in force
    info = {"own_line": False, "failed": False, "offset": False}
    for st_ in c["steps"]:
        k, cnt = st_[0], max(1, st_[1])
        if k in "/?":
            so = st_[3] if len(st_) > 3 else None
            if st_[2] < 0:
                if last is None:
                    continue            # no previous pattern: the search fails, the cursor stays
                root = last[0]
            else:
                node = rxgen.from_json(c["pats"][st_[2]])
                root = rx.grp(node)
                rx.number_groups(root, 0)
            last = (root, 1 if k == "/" else -1)
            d = last[1]
        elif k in "nN":
            if last is None:
                continue
            root = last[0]
            d = last[1] if k == "n" else -last[1]
        else:
            w = _curword(lines[r], o)
            if w is None:
                continue
            root = rx.grp(rx.cat([rx.wb(), rx.lit(w), rx.we()]))
            rx.number_groups(root, 0)
            last = (root, 1)
            d = 1
            so = None
        rr, oo = r, o
        ok = True
        for _ in range(cnt):
            res = (_fwd if d > 0 else _bwd)(lines, root, c["ic"], rr, oo, mode)
            if res is None:
                ok = False
                break
            rr, oo = res
        if ok and so is not None:
            info["offset"] = True
            if not (0 <= rr + so < len(lines)):
                ok = False          # "bad offset": the cursor stays
            else:
                rr += so
                ind = len(lines[rr]) - len(lines[rr].lstrip(" \t"))
                oo = ind
        if ok:
            if rr == r:
                info["own_line"] = True
            r, o = rr, min(oo, max(0, len(lines[rr]) - 1))
        else:
            info["failed"] = True
    return (r, o), info


def run_case(env, c):
    strs = []
    for j in c["pats"]:
        s = rx.to_pattern(rxgen.from_json(j))
        pj, used = rxgen.parse(s)
        if used != len(s) or rxgen.normalize(pj) != rxgen.normalize(j) or s == "":
            return Outcome(True, False, ["excluded_print_parse_mismatch"])
        strs.append(s)
    lines = c["lines"]
    keys = ":se %sic\n" % ("" if c["ic"] else "no")
    keys += "%dG0" % (c["row"] + 1)
    if c["off"]:
        keys += "%d " % c["off"]
    for st_ in c["steps"]:
        cnt = str(st_[1]) if st_[1] else ""
        if st_[0] in "/?":
            keys += cnt + st_[0] + (gen.delim_escape(strs[st_[2]], st_[0]) if st_[2] >= 0 else "") + \
                ((st_[0] + "%d" % st_[3]) if len(st_) > 3 else "") + "\n"
        elif st_[0] in "nN":
            keys += cnt + st_[0]
        else:
            keys += cnt + "\x01"
    r, out, cur, _ = viutil.run_vi(env, lines, keys, rows=12, cols=60)
    want, info = simulate(c, "whole")
    nmatch = 0
    for j in c["pats"]:
        root = rx.grp(rxgen.from_json(j))
        rx.number_groups(root, 0)
        nmatch = max(nmatch, sum(1 for l in lines if rx.search_prio(root, rx.Ctx(l, c["ic"]), 0, line_mode=True)))
    nt = nmatch >= 2 and (c["row"], c["off"]) != (0, 0) and (info["own_line"] or info["failed"])
    cl = ["own_line" if info["own_line"] else "other_line", "some_failed" if info["failed"] else "all_found"] + (["line_offset"] if info.get("offset") else [])
    if r.timeout:
        return Outcome(True, False, cl + ["timeout"], inconclusive=True)
    if r.crashed():
        return Outcome(False, nt, cl, detail={"why": "editor crashed", "sig": r.signature(), "keys": keys})
    if r.depcut:
        return Outcome(True, False, cl + ["depth_limit_hit_discarded"])
    if out is None or cur is None:
        return Outcome(False, nt, cl, detail={"why": "no output / marker not found", "keys": keys})
    if out != lines:
        return Outcome(False, nt, cl, detail={"why": "search changed the text", "keys": keys, "got": out, "lines": lines})
    if cur != want:
        det = {"why": "cursor lands elsewhere than the reference says", "keys": keys, "lines": lines, "got": cur, "want": want, "patterns": strs}
        haswb = any(rx.has(rxgen.from_json(j), lambda x: x.k in ("wb", "we")) for j in c["pats"]) or any(s[0] == "A" for s in c["steps"])
        if haswb:
            alt, _ = simulate(c, "suffix")
            if alt == cur:
                return Outcome(False, nt, cl + ["F10"], known="F10", detail=det)
        return Outcome(False, nt, cl, detail=det)
    return Outcome(True, nt, cl)
