"""C15 - global runs its command once per matching line, undone as one step."""
from hypothesis import strategies as st

from engine.core import Outcome
from engine import runner
from models import lined
from . import gen, exgen

ID = "C15"
LEVEL = "exploration"
RULE = ("Hypothesis: buffer of 3-12 lines with unique line tokens x range x pattern x negation x command list drawn from d, s///, pu, a/i/c with a "
        "text block, relative-address commands (-1d, +1d, .,+1d, +s), | lists and nested g, followed by write, u, write, u, write.  Oracle: "
        "specification-style global over line identities (models/lined.py) and the one-undo-step rule.  Non-trivial = >=2 visits executed and "
        "the command list changed the number of lines; distinct by SHA-1 of the case")
ASSUMPTIONS = ["@ / ra inside a global are outside the stated command set", "text blocks of a/i/c under :g are read from the input stream once per visit; "
               "the generator supplies exactly the number the reference consumes", "runs that hit the regex depth limit are discarded"]


def prepare(build, tier):
    return {"vi": build.vi_plain()}


def budget(tier):
    return (1500, 16) if tier == "quick" else (25000, 16)


def spell(draw, g):
    """the spellings of the command name: g global / v vglobal g! global!"""
    g["sp"] = draw(st.sampled_from(["g", "g", "global"] if g["c"] == "g" else ["v", "g!", "g!", "global!", "vglobal"]))
    return g


@st.composite
def sub_cmd(draw, depth=0):
    k = draw(st.integers(0, 12))
    a = draw(exgen.rel_addr)
    if k == 12:
        k = 9
    if k <= 2:
        return {"c": "d", "a": a}
    if k <= 4:
        return {"c": "s", "a": a, "pat": draw(exgen.simple_pat()), "repl": draw(st.sampled_from([[["l", "Z"]], [["g", 0], ["g", 0]], [], [["l", "T"], ["g", 0]]])),
                "g": draw(st.booleans())}
    if k == 5:
        return {"c": "pu", "a": a, "r": "a"}
    if k <= 7:
        return {"c": draw(st.sampled_from(["a", "i", "c"])), "a": a}
    if k == 8:
        return {"c": "y", "a": a, "r": "b"}
    if k == 9 and depth == 0:
        # (a nested global with a range of its own marks lines the outer one is still waiting for)
        na = draw(st.sampled_from([[], [], [["", exgen.term(["n", 1])], [",", exgen.term(["$"])]], [["", exgen.term(["%"])]], [["", exgen.term(["."])], [",", exgen.term(["."], ["+2"])]],
                                   [["", exgen.term(["."])], [",", exgen.term(["$"])]], [["", exgen.term(["n", 1])], [",", exgen.term(["."])]], [["", exgen.term(["."])]],
                                   [["", exgen.term([""], ["-1"])], [",", exgen.term(["."], ["+1"])]]]))
        return spell(draw, {"c": draw(st.sampled_from(["g", "v"])), "a": na, "pat": draw(exgen.simple_pat()), "cmds": [draw(sub_cmd(1))]})
    return {"c": "d", "a": a}


@st.composite
def case(draw):
    n = draw(st.integers(3, 12))
    lines = ["l%d %s" % (i, draw(st.sampled_from(exgen.WORDS + ["", "foo bar"]))) for i in range(n)]
    if draw(st.integers(0, 4)) == 0:
        lines[draw(st.integers(0, n - 1))] = ""
    whole = draw(st.booleans())
    if whole:
        a = []
    else:
        lo = draw(st.integers(1, n))
        hi = draw(st.integers(lo, n))
        a = [["", exgen.term(["n", lo])], [",", exgen.term(["n", hi])]]
    cmds = [draw(sub_cmd())]
    if cmds[0]["c"] not in ("a", "i", "c") and draw(st.booleans()):
        cmds.append(draw(sub_cmd().filter(lambda c: c["c"] not in ("g", "v"))))
    if any(c["c"] in ("a", "i", "c") for c in cmds[:-1]):
        cmds = cmds[-1:]
    if cmds[0]["c"] in ("g", "v"):
        cmds = cmds[:1]            # a nested global takes the rest of the line as its own command list
    return {"lines": lines, "g": spell(draw, {"c": draw(st.sampled_from(["g", "g", "v"])), "a": a, "pat": draw(exgen.simple_pat()), "cmds": cmds}),
            # (blocks of several lines that the pattern is likely to match: a line that arrives with a stale mark would be visited)
            "blk": draw(st.sampled_from([["T1"], ["T1", "T2"], [], ["T foo"], ["T1", "T2"], ["x foo", "y foo", "z foo"], ["T bar", "T baz foo"]])),
            # an earlier global that is rejected (pattern does not compile / range does not resolve) must leave no state behind
            "prior": draw(st.sampled_from(["", "", "g/[a/d\n", "99g/x/d\n", "g/(/d\n", "v/[[:alpha:/d\n"]))}


def strategy(tier):
    return case()


def extra(env, tier, seed):
    """nesting depth: N unaddressed globals around one with a range - the innermost visits every line of its range, or the line is refused whole"""
    fails = []
    n = 0
    for dep in range(0, 13):
        for inner in ("1,$g/a/s/$/x/", "%v/b/s/$/x/", ".,$g/a/s/$/x/"):
            c = {"kind": "depth", "dep": dep, "inner": inner}
            o = run_depth(env, c)
            n += 1
            if not o.ok and not o.inconclusive:
                fails.append({"case": c})
    return [{"name": "nesting_depth_all_or_nothing", "exhaustive": True, "evaluations": n, "distinct_nontrivial": n,
             "space": "0..12 enclosing g/a/ x 3 innermost ranged globals, 3 matching lines",
             "samples": ["g/a/g/a/g/a/1,$g/a/s/$/x/ on a a a: every line gets one x per visit of the outer global, or no line changes at all"],
             "violations": fails}]


def run_depth(env, c):
    d = env.fresh()
    runner.write_file(d, "f", b"a\na\na\n")
    script = "g/a/" * c["dep"] + c["inner"] + "\nw! out\n"
    r = runner.run_editor(env.paths["vi"], ["-s", "-e", "f"], script.encode() + runner.EX_TRAILER, d)
    if r.timeout:
        return Outcome(True, False, ["depth", "timeout"], inconclusive=True)
    if r.crashed():
        return Outcome(False, True, ["depth"], detail={"why": "editor crashed", "sig": r.signature(), "script": script})
    got = runner.read_file(d, "out")
    # every enclosing global visits each of the 3 lines once and runs the rest there; the innermost appends one x to every line of its range
    if c["dep"] == 0:
        full = ["ax", "ax", "ax"]
    elif c["inner"].startswith("."):
        full = ["ax", "axx", "axxx"]
    else:
        full = ["axxx", "axxx", "axxx"]
    if got not in (gen.to_bytes(full), b"a\na\na\n"):
        return Outcome(False, True, ["depth"], detail={"why": "nested globals %d deep visited some lines of the innermost range only" % (c["dep"] + 1), "script": script,
                                                      "got": got, "want": gen.to_bytes(full), "or": "a a a unchanged (refused)"})
    return Outcome(True, True, ["depth"])


def run_case(env, c):
    if c.get("kind") == "depth":
        return run_depth(env, c)
    d = env.fresh()
    orig = list(c["lines"])
    pre = orig + ["MARKER"]
    ed = lined.Ed(pre)
    ed.xrow = len(pre) - 1                 # after "$a MARKER": current line = the appended line
    ed.reg_put("a", "REG1\nREG2\n", 1)
    ed.blocks = [list(c["blk"])] * 4000
    ed.visits = 0
    ed.cmd(c["g"])
    want = ed.text()
    nblk = ed.blocks_used
    if nblk >= 1000 or ed.visits > 3000:
        # a nested global whose range takes in what it inserts multiplies the text at every visit: minutes in the editor, and more text
        # blocks than the reference was given
        return Outcome(True, False, ["excluded_multiplying_nested_global"])
    ed2 = lined.Ed(pre)
    ed2.xrow = len(pre) - 1
    ed2.reg_put("a", "REG1\nREG2\n", 1)
    ed2.blocks = [list(c["blk"])] * 4000
    ed2.visits = 0
    ed2.resume_by_index = True
    ed2.cmd(c["g"])
    alt = ed2.text()
    script = "se noic\nrs a\nREG1\nREG2\n.\n$a\nMARKER\n.\n%w! pre\n"
    script += c.get("prior", "") + exgen.cmd_text(c["g"]) + "\n"
    script += ("".join(l + "\n" for l in c["blk"]) + ".\n") * nblk
    script += "%w! out1\nu\n%w! out2\nu\n%w! out3\n"
    runner.write_file(d, "f", gen.to_bytes(orig))
    r = runner.run_editor(env.paths["vi"], ["-s", "-e", "f"], script.encode("utf-8") + runner.EX_TRAILER, d)
    nt = ed.visits >= 2 and len(want) != len(pre)
    cl = ["visits_%d" % min(ed.visits, 3), "changed" if want != pre else "unchanged"] + (["nested"] if any(x["c"] in ("g", "v") for x in c["g"]["cmds"]) else [])
    if r.timeout:
        return Outcome(True, False, cl + ["timeout"], inconclusive=True)
    if r.crashed():
        return Outcome(False, nt, cl, detail={"why": "editor crashed", "sig": r.signature(), "script": script})
    if r.depcut:
        return Outcome(True, False, cl + ["depth_limit_hit_discarded"])
    o1, o2, o3, p0 = (runner.read_file(d, x) for x in ("out1", "out2", "out3", "pre"))
    if p0 != gen.to_bytes(pre):
        return Outcome(False, nt, cl, detail={"why": "setup differs (harness)", "pre": p0})
    if o1 != gen.to_bytes(want):
        if o1 == gen.to_bytes(alt):      # (left-over text blocks are not commands that edit: T1, T foo, .)
            return Outcome(False, nt, cl + ["F23"], known="F23", detail={"why": "a pending line that moved above the resume index was not visited",
                                                                          "script": script, "got": o1, "want": gen.to_bytes(want)})
        return Outcome(False, nt, cl, detail={"why": "text after the global differs from the reference", "script": script, "lines": pre,
                                             "got": o1, "want": gen.to_bytes(want)})
    if want != pre:
        if o2 != gen.to_bytes(pre):
            return Outcome(False, nt, cl, detail={"why": "one undo after the global does not restore the text before it", "script": script,
                                                 "got": o2, "want": gen.to_bytes(pre)})
        if o3 != gen.to_bytes(orig):
            return Outcome(False, nt, cl, detail={"why": "second undo does not go back to the command before the global", "script": script,
                                                 "got": o3, "want": gen.to_bytes(orig)})
    return Outcome(True, nt, cl)
