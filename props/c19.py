"""C19 - the terminal shows a true window of the buffer with the cursor on its character."""
from hypothesis import strategies as st

from engine.core import Outcome
from engine import runner
from models import term, layout
from . import gen, viutil

ID = "C19"
LEVEL = "exploration"
RULE = ("Hypothesis: key sequences of motions, scrolls (^E ^Y ^D ^U ^F ^B z<CR> z. z-), edits, undo/redo, ex commands and window commands over "
        "buffers that are empty / shorter / longer than the window with lines shorter and longer than its width, window sizes 3x10..40x120, hl on/off, "
        "hll.  Three runs per case, each quiesced with ESC ESC: A = keys (terminal stream through the VT100 emulator), B = keys + ^L (full repaint), "
        "C = keys + marker + :w (buffer and cursor).  (1) text rows of A = rows of B; (2) single window: rows of A = rendering of lines [t, t+rows) "
        "of the written buffer for one t, clipped to one horizontal offset, filler ~ past the end; (3) terminal cursor row = cursor line - t and its "
        "column inside the cells of the cursor character.  Non-trivial = the window was scrolled (t > 0) and the keys changed the number of lines; "
        "distinct by SHA-1 of the case")
ASSUMPTIONS = ["clauses (2) and (3): texts use ASCII, tabs, single-width accented and double-width CJK characters; a tenth of the cases adds Arabic/Persian "
               "text with td/order/shape/lim changes and is judged by clause (1) only (both streams through the same emulator; the cell width of "
               "combining characters on a real terminal is the terminal's business); colours/attributes are not part of the property", "the message row is compared only between A and B"]

LINE_ATOMS = ["foo", "bar", " ", " ", "x", "int main(void)", "\t", "é", "日本", "a.b", "0123456789", "if (x) {", "}", "return;"]


def prepare(build, tier):
    return {"vi": build.vi_plain(), "src": build.src, "shim": build.shim("fishim")}


def budget(tier):
    return (300, 16) if tier == "quick" else (6000, 16)


line = st.lists(st.sampled_from(LINE_ATOMS), max_size=6).map("".join)
# right-to-left material: judged by clause (1) only (incremental drawing = full repaint), which needs no model of reordering and shaping
RTL_ATOMS = ["سلام", "کتاب ", "لا", "بَ", "می‌روم", " ", "abc", "x ", "(", ")", "12", "\t", "و", "ـ", "日"]
rtlline = st.lists(st.sampled_from(RTL_ATOMS), max_size=7).map("".join)
RTLKEYS = [":se td=-1\n", ":se td=1\n", ":se td=2\n", ":se td=-2\n", ":se order=0\n", ":se order=2\n", ":se noshape\n", ":se shape\n", ":se lim=12\n", "i\x05ab\x1b", "A\x05 z\x1b",
           "x", "3l", "2h", "$", "0", "8|", "15|", "rب", "~", "J", "dw", "D",
           # a sticky column beyond the end of the line reached (the line ending in a reversed run)
           "$j", "$k", "30|j", "30|k", "$jj", "G$k"]
longline = st.tuples(line, st.integers(2, 12)).map(lambda t: (t[0] + " ") * t[1])

KEYS = ["j", "k", "l", "h", "w", "b", "$", "0", "G", "1G", "5G", "H", "M", "L", "3j", "4k", "10l", "}", "{",
        "\x05", "\x19", "\x04", "\x15", "\x06", "\x02", "2\x05", "3\x19", "z\n", "z.", "z-",
        "x", "dd", "2dd", "D", "J", "p", "P", "yy", "yyp", "ddp", "u", "\x12", ">>", "~", "rZ",
        # (^E first: a ^F typed at a pending "[enter to continue]" prompt selects the alternate (Farsi) keymap for later inserts)
        "o\x05foo\x1b", "O\x05bar\x1b", "i\x05x\x1b", "A\x05end\x1b", "o\x05two\nlines\x1b", "cw\x05new\x1b", "S\x1b", "3O\x05top\x1b",
        ":3d\n", ":$d\n", ":1,3d\n", ":s/o/0/g\n", ":g/foo/d\n", ":2\n", ":$\n", ":1\n", ":se hll\n", ":se nohl\n", ":%p\n", ":ec hi\n", ":u\n",
        # ex lines whose last command fails after an earlier one changed text or printed lines (the status of a line is that of its last command)
        ":1d|99999p\n", ":1p|2p|99999p\n", ":s/o/0/|99999p\n", ":$d|nosuchcmd\n", ":2,3m0|99999p\n", ":g/o/s//0/|99999p\n",
        # a terminal re-initialisation (^L, a shell escape) in the middle of a history, then inserts that scroll by a line feed on the last row
        "\x0c", "\x0c", "\x0cLo\x05new\x1b", "\x0cLA\x05x\ny\x1b", ":!true\n\n", ":!true\n\nLo\x05sh\x1b", "Lo\x05low\x1b", "GA\x05q\nr\x1b",
        "/foo\n", "?bar\n", "n", "N", "\x07", "ma", "'a", "``",
        # scrolling that pushes the cursor off its line (cursor on the first/last row, at a column beyond tabs or wide characters)
        # puts of character-wise text that spans lines, with counts
        "y}2p", "y}3P", "ly}jj2p", "d}2P", "majjlly`a3G2p", "majly`ap", "y/a\n2p", "wy}k3p", "y}G2p", "lly2j2P",
        # yanks that move the cursor (to the start of the region) without changing anything
        "yb", "y0", "yk", "y2k", "$yb", "Lyk", "yH", "y{", "$y^", "12|yk",
        # one insert that makes several lines: an earlier line wider than the window (typed while the row was scrolled sideways), and
        # lines that arrive all at once from a register (^P, ^R x)
        "A\x05 " + "abcdefghij" * 5 + "\ntail\x1b", "o\x05" + "0123456789" * 13 + "\nz\x1b", "I\x05" + "wide " * 9 + "\n\nq\x1b",
        "yyo\x05\x10x\x1b", "\"ayjo\x05\x12aX\x1b", "2yyA\x05\x10\x1b", "ywi\x05\x10\x10\x1b",
        # operators whose region starts above the first row / ends below the last row of the window
        "H>k", "Hjg~2k", "Hdk", "Hd2k", "H2>k", "Hyk", "H!kcat\n", "Hc2k\x05x\x1b", "\x06>k", "\x06jg~2k", "L>j", "Ldj", "Lg~2j", "Lcj\x05y\x1b", "L!jcat\n", "\x02L>j", "HkJ", "L3J",
        "L\x19", "L8|\x19", "L14|2\x19", "H\x05", "H9|\x05", "H15|3\x05", "L$\x19", "H$\x05", "12|", "20|"]
WKEYS = ["\x17s", "\x17j", "\x17k", "\x17o", "\x17c", "\x17x"]
# the small families of KEYS get a share of their own (a flat choice among ~170 keys would pick each of them once in a few histories)
FAMILIES = [[k for k in KEYS if k.startswith(":") and "|" in k],                                                    # failing tails
            [k for k in KEYS if k.startswith("\x0c") or k.startswith(":!") or k in ("Lo\x05low\x1b", "GA\x05q\nr\x1b")],     # re-initialisation
            [k for k in KEYS if len(k) > 40 or "\x10" in k or "\x12a" in k],                                           # several lines from one insert
            [k for k in KEYS if k[0] in "HL\x06\x02" and len(k) > 1],                                                   # window-edge operators and scrolls
            [k for k in KEYS if k[0] in "ydlmw" and len(k) > 2 and k[-1] in "pP"]]                                      # multi-line puts


def keys_strategy(extra):
    flat = st.sampled_from(KEYS + extra)
    return st.one_of([flat] * 7 + [st.sampled_from(f) for f in FAMILIES])


@st.composite
def case(draw):
    kind = draw(st.integers(0, 5))
    if kind == 0:
        lines = []
    elif kind == 1:
        lines = draw(st.lists(line, min_size=1, max_size=3))
    else:
        lines = [draw(st.one_of(line, line, longline)) + (str(i) if i % 3 == 0 else "") for i in range(draw(st.integers(4, 60)))]
    rows = draw(st.one_of(st.integers(3, 8), st.integers(3, 40)))
    cols = draw(st.one_of(st.integers(10, 30), st.integers(10, 120)))
    win = draw(st.integers(0, 4)) == 0 and rows >= 8        # (a split of fewer rows leaves windows without any text row)
    rtl = draw(st.integers(0, 9)) == 0
    if rtl and lines:
        for i in range(len(lines)):
            if draw(st.integers(0, 2)):
                lines[i] = draw(rtlline) + (lines[i] if draw(st.integers(0, 3)) == 0 else "")
    keys = draw(st.lists(keys_strategy((WKEYS * 3 if win else []) + (RTLKEYS * 2 if rtl else [])), min_size=1, max_size=25))
    return {"lines": lines, "rows": rows, "cols": cols, "keys": keys, "win": win, "rtl": rtl}


@st.composite
def rtlfill(draw):
    """a line much wider than the window, drawn right-to-left (td=-2), the window somewhere in its middle: every cell of its row holds
    one of its characters - in particular the cells at the two window edges"""
    cols = draw(st.integers(10, 60))
    L = 3 * cols + draw(st.integers(5, 40))
    body = draw(st.lists(st.sampled_from("abcdefghijklmnopqrstuvwxyz0123456789"), min_size=L, max_size=L))
    for i in range(1, L):           # (no two equal neighbours: the character an x deletes is then identified by the first difference)
        if body[i] == body[i - 1]:
            body[i] = "A" if body[i - 1] != "A" else "B"
    body = "".join(body)
    n = draw(st.integers(cols + 2, L - cols - 2))
    extra = draw(st.lists(st.sampled_from(["l", "h", "2l", "3h", "\x0c"]), max_size=3))
    return {"kind": "rtlfill", "lines": [body, "x"], "rows": draw(st.integers(3, 12)), "cols": cols, "keys": [":se td=%d\n" % draw(st.sampled_from([-2, -2, 2])),
            draw(st.sampled_from(["", ":se order=2\n", ":se order=0\n"])), "%d|" % n] + extra, "win": False}


@st.composite
def rtlcur(draw):
    """small buffers of left-to-right lines with reversed runs, default options, plain motions: the cursor clause for such lines"""
    ara = ["ا", "ب", "پ", "ل", "م", "ی", "ک"]
    def ln():
        parts = draw(st.lists(st.one_of(st.sampled_from(["ab", "x", "foo", "1", " ", " ", "- "]), st.lists(st.sampled_from(ara), min_size=1, max_size=4).map("".join)), min_size=1, max_size=6))
        s_ = "".join(parts)
        return ("a" + s_) if s_[0] in ara or s_[0] in " -" else s_          # (left-to-right context: the line starts with a Latin letter)
    lines = [draw(st.one_of(st.just("abcdefghijklmnopqrstuvwxyz"), st.builds(ln))) for _ in range(draw(st.integers(2, 5)))]
    keys = draw(st.lists(st.sampled_from(["$", "j", "k", "$j", "$k", "l", "h", "3l", "w", "b", "e", "0", "9|", "30|", "G", "1G", "x", "rq"]), min_size=1, max_size=7))
    return {"lines": lines, "rows": 12, "cols": 60, "keys": keys, "win": False, "rtl": True}


def strategy(tier):
    return case()


def extra(env, tier, seed):
    """the right-to-left fill clause, as a generated family of its own (so that its small cases do not crowd out the histories)"""
    from hypothesis import given, settings, seed as hseed, HealthCheck, Phase
    n = 200 if tier == "quick" else 4000
    st_ = {"n": 0, "fail": None}

    @hseed(seed + 4711)
    @settings(max_examples=n, database=None, deadline=None, suppress_health_check=list(HealthCheck), phases=[Phase.generate, Phase.shrink], print_blob=False,
              report_multiple_bugs=False)
    @given(rtlfill())
    def body(c):
        o = run_rtlfill(env, c)
        st_["n"] += 1
        if not o.ok and not o.inconclusive:
            st_["fail"] = c
            raise AssertionError("violation")
    try:
        body()
    except AssertionError:
        pass
    res = [{"name": "right_to_left_line_fills_the_window", "exhaustive": False, "evaluations": st_["n"], "distinct_nontrivial": st_["n"],
            "samples": ["td=-2, line of 3 x window width, N| into its middle: no blank cell in the row, the cursor on the cell of the character x deletes"],
            "violations": ([{"case": st_["fail"]}] if st_["fail"] else [])}]
    st2 = {"n": 0, "chk": 0, "fail": None}

    @hseed(seed + 4712)
    @settings(max_examples=150 if tier == "quick" else 3000, database=None, deadline=None, suppress_health_check=list(HealthCheck), phases=[Phase.generate, Phase.shrink],
              print_blob=False, report_multiple_bugs=False)
    @given(rtlcur())
    def body2(c):
        o = run_case(env, c)
        st2["n"] += 1
        st2["chk"] += "rtl_cursor_checked" in (o.classes or [])
        if not o.ok and not o.inconclusive and not o.known:
            st2["fail"] = c
            raise AssertionError("violation")
    try:
        body2()
    except AssertionError:
        pass
    res.append({"name": "cursor_on_its_character_in_lines_with_reversed_runs", "exhaustive": False, "evaluations": st2["n"], "distinct_nontrivial": st2["chk"],
                "samples": ["abc..z / ab + Arabic run, keys $ j: the terminal cursor is on the cell of the character the buffer cursor is on"],
                "violations": ([{"case": st2["fail"]}] if st2["fail"] else [])})
    return res


def run_rtlfill(env, c):
    if "t" not in _tabs:
        _tabs["t"] = layout.Tables(env.paths["src"])
    t = _tabs["t"]
    r = run_term(env, c, "")
    if r.timeout:
        return Outcome(True, False, ["rtlfill", "timeout"], inconclusive=True)
    if r.crashed():
        return Outcome(False, True, ["rtlfill"], detail={"why": "editor crashed", "sig": r.signature()})
    k = r.out.find(b"\0MARK\0")
    if k < 0:
        return Outcome(True, False, ["rtlfill", "marker_not_reached"], inconclusive=True)
    te = term.Term(c["rows"], c["cols"], lambda cp: 1 if cp < 0x300 else t.wid(cp))
    te.feed(r.out[:k])
    row = te.row_text(0)
    blanks = [i for i, ch in enumerate(row[:c["cols"]]) if ch == " "]
    if blanks:
        return Outcome(False, True, ["rtlfill"], detail={"why": "cell(s) %s of the row are blank although the line covers the whole window" % blanks[:4], "row": row, "keys": c["keys"],
                                                        "cols": c["cols"], "line_length": len(c["lines"][0])})
    # the terminal cursor sits on the cell that shows the character commands act on: the same keys followed by x delete exactly the
    # character drawn under the cursor
    body = c["lines"][0]
    r2 = run_term(env, c, "x:w! out\n")
    if r2.timeout or r2.crashed():
        return Outcome(True, False, ["rtlfill", "second_run_inconclusive"], inconclusive=True)
    out = runner.read_file(r2.dir, "out")
    out = out.decode("utf-8", "replace").split("\n")[0] if out is not None else ""
    if len(out) != len(body) - 1:
        return Outcome(True, False, ["rtlfill", "second_run_inconclusive"], inconclusive=True)
    p = next((i for i in range(len(out)) if out[i] != body[i]), len(out))
    shown = te.row_text(te.r)[te.c:te.c + 1]
    if te.r != 0 or shown != body[p]:
        return Outcome(False, True, ["rtlfill"], detail={"why": "the terminal cursor (row %d, column %d) is on a cell showing %r, but commands act on character %d of the line, %r" %
                                                        (te.r, te.c, shown, p + 1, body[p]), "keys": c["keys"], "cols": c["cols"], "row": te.row_text(0)})
    return Outcome(True, True, ["rtlfill", "rtlfill_cursor_checked"])


_tabs = {}


def run_term(env, c, extra_keys):
    d = env.fresh()
    runner.write_file(d, "f", gen.to_bytes(c["lines"]))
    # 0x1c is not a vi command; the read() interposer writes a marker to the terminal stream when the editor reads it
    stdin = ("".join(c["keys"]) + "\x1b\x1b" + extra_keys + "\x1c").encode("utf-8") + runner.VI_TRAILER
    r = runner.run_editor(env.paths["vi"], ["-v", "f"], stdin, d, rows=c["rows"], cols=c["cols"], want_stats=False,
                          env_extra={"LD_PRELOAD": env.paths["shim"], "NVFI_MARK": "1"})
    r.dir = d
    return r


def render_line(t, s, left, cols):
    """cells of buffer line s in the window [left, left+cols)"""
    cells = []
    col = 0
    for ch in s:
        w = t.cwid(ord(ch), col)
        if ch == "\t":
            cells.extend([(" ", col + k) for k in range(w)])
        elif w == 2:
            cells.append((ch, col))
            cells.append(("", col + 1))
        else:
            cells.append((ch, col))
        col += w
    out = [" "] * cols
    i = 0
    col = 0
    for ch in s:
        w = t.cwid(ord(ch), col)
        if col >= left and col + w - 1 < left + cols:
            if ch == "\t":
                pass
            elif w == 2:
                out[col - left] = ch
                out[col - left + 1] = ""
            else:
                out[col - left] = ch
        col += w
    return "".join(out), col


def run_case(env, c):
    if c.get("kind") == "rtlfill":
        return run_rtlfill(env, c)
    if "t" not in _tabs:
        _tabs["t"] = layout.Tables(env.paths["src"])
    t = _tabs["t"]
    rows, cols = c["rows"], c["cols"]
    ra = run_term(env, c, "")
    rb = run_term(env, c, "\x0c")
    cl = ["win" if c["win"] else "single", "rows_%d" % min(rows // 10, 3)]
    if ra.timeout or rb.timeout:
        return Outcome(True, False, cl + ["timeout"], inconclusive=True)
    if ra.crashed() or rb.crashed():
        return Outcome(False, False, cl, detail={"why": "editor crashed", "sig": (ra if ra.crashed() else rb).signature()})

    def screen(r):
        k = r.out.find(b"\0MARK\0")
        if k < 0:
            return None
        te = term.Term(rows, cols, lambda cp: 1 if cp < 0x300 else t.wid(cp))
        te.feed(r.out[:k])
        return te
    ta, tb = screen(ra), screen(rb)
    if ta is None or tb is None:
        return Outcome(True, False, cl + ["marker_not_reached"], inconclusive=True)
    if ta.unknown or tb.unknown:
        return Outcome(False, False, cl, detail={"why": "terminal stream contains a sequence the emulator does not know", "seq": (ta.unknown + tb.unknown)[:3]})
    nrows_text = rows - 1
    rows_a = [ta.row_text(i) for i in range(nrows_text)]
    rows_b = [tb.row_text(i) for i in range(nrows_text)]
    # run C: buffer + cursor
    rc, out_lines, cur, _ = viutil.run_vi(env, c["lines"], "".join(c["keys"]), rows=rows, cols=cols, want_stats=False)
    nt = False
    if out_lines is not None:
        nt = len(out_lines) != len(c["lines"])
    import re as _re
    status = _re.compile(r'^"[^"]*"[ *]+\[[=-]\d')
    # rows that are a window's own status/message row (split windows) are not text rows: a message there legitimately
    # differs from the status line a repaint shows
    bad = [i for i in range(nrows_text) if rows_a[i] != rows_b[i] and not (c["win"] and (status.match(rows_b[i]) or status.match(rows_a[i])))]
    if bad and c["win"] and all(not (ta.top <= i <= ta.bot) for i in bad) and (ta.top, ta.bot) != (0, rows - 1):
        # F24: after an edit only the active window (= the terminal's scroll region) is brought up to date; the other window
        # keeps showing the old state of the same buffer until it is visited or the screen is repainted
        return Outcome(False, nt, cl + ["F24"], known="F24", detail={"why": "stale rows %s in the inactive window" % bad[:5], "keys": c["keys"], "rows": rows, "cols": cols,
                                                                   "lines": c["lines"][:12], "incremental": [rows_a[i] for i in bad[:3]], "repaint": [rows_b[i] for i in bad[:3]]})
    if bad:
        return Outcome(False, nt, cl, detail={"why": "incremental drawing differs from a full repaint (^L) in text row(s) %s" % bad[:5], "keys": c["keys"], "rows": rows,
                                             "cols": cols, "lines": c["lines"][:12], "incremental": [rows_a[i] for i in bad[:3]], "repaint": [rows_b[i] for i in bad[:3]]})
    if c.get("rtl"):
        # the cursor clause for lines with reversed runs, where the layout is easy to state: default options, a left-to-right line that
        # fits the window, a buffer that fits the window - the terminal cursor is on a cell of the character commands act on
        if not c["win"] and out_lines and cur is not None and len(out_lines) <= nrows_text and not any(":se " in k or "\x17" in k for k in c["keys"]):
            l = out_lines[cur[0]]
            if l and cur[1] < len(l) and any(ch in t.cr2l for ch in l) and not any(ch in "\\$`'*[]{}\t" for ch in l):
                from models import vim
                v = vim.Vi([l], rows, t)
                pos = v.positions(0)
                if v.context(0) > 0 and pos[len(l)] < cols:
                    col = pos[cur[1]]
                    w = max(1, t.cwid(ord(l[cur[1]]), col))
                    if ta.r != cur[0] or not (col <= ta.c <= col + w - 1):
                        return Outcome(False, nt, cl + ["rtl"], detail={"why": "terminal cursor (row %d, column %d) is not on the cells [%d,%d] of row %d where the cursor character is drawn" %
                                                                        (ta.r, ta.c, col, col + w - 1, cur[0]), "keys": c["keys"], "line": l, "cursor": cur, "lines": c["lines"][:8]})
                    return Outcome(True, nt, cl + ["rtl", "rtl_cursor_checked"])
        return Outcome(True, nt, cl + ["clause1_only", "rtl"])
    if c["win"] or out_lines is None or cur is None:
        return Outcome(True, nt, cl + ["clause1_only"])
    # clause 2: a single t and left
    n = len(out_lines)
    trow = ta.r
    tt = cur[0] - trow
    if not (0 <= tt <= max(0, n - 1)) or trow >= nrows_text:
        return Outcome(False, nt, cl, detail={"why": "terminal cursor row %d is not the cursor line %d of a window of the buffer" % (trow, cur[0]), "keys": c["keys"]})
    maxw = max([render_line(t, l, 0, 1)[1] for l in out_lines] + [1])
    ok_left = None
    ok_lefts = []
    for left in range(0, maxw + 1):
        good = True
        for r_ in range(nrows_text):
            ln = tt + r_
            if ln < n:
                want = render_line(t, out_lines[ln], left, cols)[0]
            else:
                want = ("~" if ln else "").ljust(cols)
                if left:
                    want = render_line(t, "~" if ln else "", left, cols)[0]
            if rows_a[r_].rstrip() != want.rstrip():
                good = False
                break
        if good:
            ok_lefts.append(left)
            if ok_left is None:
                ok_left = left
    if ok_left is None:
        wants = [render_line(t, out_lines[tt + r_], 0, cols)[0].rstrip() if tt + r_ < n else "~" for r_ in range(min(nrows_text, 4))]
        return Outcome(False, nt, cl, detail={"why": "text rows are not lines %d.. of the buffer under any single horizontal offset" % (tt + 1), "keys": c["keys"],
                                             "rows": rows, "cols": cols, "screen": [x.rstrip() for x in rows_a[:4]], "buffer_rows_at_offset_0": wants})
    # clause 3: cursor column inside the cells of the cursor character
    if n:
        l = out_lines[cur[0]]
        col = 0
        for i, ch in enumerate(l):
            w = t.cwid(ord(ch), col)
            if i == cur[1]:
                break
            col += w
        else:
            w = 1
        lo, hi = col - ok_left, col + max(1, w) - 1 - ok_left
        if l and not any(col - lf <= ta.c <= col + max(1, w) - 1 - lf for lf in ok_lefts):
            return Outcome(False, nt, cl, detail={"why": "terminal cursor column %d is outside the cells [%d,%d] of the cursor character" % (ta.c, lo, hi), "keys": c["keys"],
                                                 "line": l, "cursor": cur, "left": ok_left})
    return Outcome(True, nt and tt > 0, cl + (["scrolled"] if tt > 0 else ["top"]) + (["hscroll"] if ok_left else []))
