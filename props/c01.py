"""C01 - write-out equals buffer text; read-then-write reproduces the file byte for byte.

Generator: NUL-free file contents with sizes *constructed* around the 1 KiB read chunk, the
4 KiB write batch and the 512/1024/2048 line-table growth points; ranges a,b; previous
contents of the target.  Oracle: round trip + concatenation model + exact length.
"""
import os

from hypothesis import strategies as st

from engine.core import Outcome
from engine import runner

ID = "C01"
LEVEL = "exploration"
RULE = ("Hypothesis-generated (file bytes over 1..255, command, range, previous target content); "
        "non-trivial = file has >=1 line AND (contains a byte >=0x80 OR a line length within 2 of a multiple "
        "of 1024/4096 OR cumulative length crossing 4096 inside a batch OR line count within 1 of 512/1024/2048 "
        "OR the target previously held more data); distinct by SHA-1 of the case")
ASSUMPTIONS = ["vi -s -e on a pipe behaves like typed ex commands", "files are NUL-free (outside the property otherwise)"]


def prepare(build, tier):
    return {"vi": build.vi_plain(), "shim": build.shim("fishim")}


def budget(tier):
    return (900, 16) if tier == "quick" else (15000, 16)


# ------------------------------------------------------------------ generator
def _clean(b):
    return bytes(x if x not in (0, 10) else 0x2e for x in b)


UTF8_CHARS = ["a", "Z", " ", "\t", "\r", "é", "ل", "日", "😀", "́", "‌", "~", "\x7f", "\x01", "\x1b"]

unit = st.one_of(
    st.binary(min_size=1, max_size=8).map(_clean),
    st.lists(st.sampled_from(UTF8_CHARS), min_size=1, max_size=5).map(lambda l: "".join(l).encode()),
    st.lists(st.integers(0x80, 0xff), min_size=1, max_size=4).map(bytes),
)

BOUND_LEN = [k * 1024 + d for k in (1, 2, 3) for d in (-2, -1, 0, 1, 2)] + \
            [k * 4096 + d for k in (1, 2, 3) for d in (-2, -1, 0, 1, 2)]
BOUND_CNT = [511, 512, 513, 1023, 1024, 1025, 2047, 2048, 2049]


def _mkline(u, n):
    return (u * (n // len(u) + 1))[:n]


short_len = st.integers(0, 40)
any_len = st.one_of(short_len, short_len, st.sampled_from(BOUND_LEN), st.integers(0, 5000))
line = st.tuples(unit, any_len).map(lambda t: _mkline(*t))
short_line = st.tuples(unit, short_len).map(lambda t: _mkline(*t))


@st.composite
def straddle(draw):
    """lines whose total length (with newlines) lands at 4096+d, so that the batch flush test is hit"""
    m = draw(st.integers(2, 6))
    target = draw(st.sampled_from([4096, 8192])) + draw(st.integers(-2, 2))
    lens = [draw(st.integers(0, target // m)) for _ in range(m - 1)]
    last = target - sum(lens) - m
    lens.append(max(0, last))
    u = draw(unit)
    pre = draw(st.lists(short_line, max_size=2))
    post = draw(st.lists(line, max_size=2))
    return pre + [_mkline(u, n) for n in lens] + post


@st.composite
def many(draw):
    n = draw(st.sampled_from(BOUND_CNT)) if draw(st.booleans()) else draw(st.integers(20, 700))
    pool = draw(st.lists(short_line, min_size=1, max_size=5))
    stride = draw(st.integers(1, 7))
    ls = [pool[(i * stride) % len(pool)] for i in range(n)]
    for _ in range(draw(st.integers(0, 2))):      # a few long lines among them
        ls[draw(st.integers(0, n - 1))] = draw(line)
    return ls


lines = st.one_of(st.lists(line, max_size=6), st.lists(short_line, max_size=12), straddle(), many())


@st.composite
def case(draw):
    ls = draw(lines)
    nonl = draw(st.booleans())
    orig = b"".join(l + b"\n" for l in ls)
    if nonl and orig:
        orig = orig[:-1]
    n = len(_model_lines(orig))
    mode = draw(st.sampled_from(["w", "range", "range", "wq", "p", "w_other_first", "reread"]))
    a = b = 0
    sym = 0
    if mode == "range":
        if n == 0:
            mode = "w"
        else:
            a = draw(st.one_of(st.integers(1, n), st.sampled_from([1, n])))
            b = draw(st.one_of(st.integers(a, n), st.sampled_from([a, n])))
            sym = draw(st.integers(0, 3))       # 0: numbers, 1: b as $, 2: %, 3: single address
            if sym == 2:
                a, b = 1, n
            if sym == 3:
                b = a
    prev = draw(st.sampled_from(["none", "shorter", "equal", "longer", "much_longer"]))
    c = {"orig": orig, "mode": mode, "a": a, "b": b, "sym": sym, "prev": prev}
    if mode == "range" and draw(st.integers(0, 3)) == 0:
        c["via"] = "wq!"        # the same range written by the quitting form of the write command
    if mode in ("w", "range") and draw(st.integers(0, 3)) == 0:
        # short counts from write(2) - legal at any time - must be retried from where the previous call stopped
        idx = sorted(set(draw(st.lists(st.integers(1, 12), min_size=1, max_size=4))))
        c["short"] = [[i, draw(st.sampled_from([1, 3, 100, 999, 1000, 4000]))] for i in idx]
    return c


def strategy(tier):
    return case()


# ------------------------------------------------------------------ model
def _model_lines(orig):
    if not orig:
        return []
    ls = orig.split(b"\n")
    if ls[-1] == b"":
        ls.pop()
    return ls


def _norm(orig):
    return b"".join(l + b"\n" for l in _model_lines(orig))


def _nontrivial(c, expect, prevlen):
    ls = _model_lines(c["orig"])
    if not ls:
        return False, []
    cl = []
    if any(x >= 0x80 for x in c["orig"]):
        cl.append("high_bytes")
    if any(min(len(l) % 1024, 1024 - len(l) % 1024) <= 2 and len(l) > 1000 for l in ls):
        cl.append("line_at_1k_or_4k_boundary")
    if len(ls) in BOUND_CNT:
        cl.append("linecount_at_growth_boundary")
    tot = 0
    for l in ls:
        nl = len(l) + 1
        if tot > 0 and tot + nl > 4096 and tot + nl <= 4100:
            cl.append("batch_flush_boundary")
            break
        tot = tot + nl if tot + nl <= 4096 else nl
    if prevlen > len(expect):
        cl.append("target_previously_longer")
    return bool(cl), cl


def run_case(env, c):
    d = env.fresh()
    orig = c["orig"]
    runner.write_file(d, "f", orig)
    ls = _model_lines(orig)
    n = len(ls)
    mode = c["mode"]
    target = "out"
    if mode in ("w", "w_other_first"):
        expect = _norm(orig)
        cmd = b"w! out\n"
        if mode == "w_other_first":       # write elsewhere first, then to out: second write must be identical
            cmd = b"w! out2\n" + cmd
    elif mode == "range":
        a, b = c["a"], c["b"]
        expect = b"".join(l + b"\n" for l in ls[a - 1:b])
        if c["sym"] == 1:
            addr = b"%d,$" % a
            expect = b"".join(l + b"\n" for l in ls[a - 1:])
        elif c["sym"] == 2:
            addr = b"%"
        elif c["sym"] == 3:
            addr = b"%d" % a
        else:
            addr = b"%d,%d" % (a, b)
        cmd = addr + (c.get("via") or "w!").encode() + b" out\n"
    elif mode == "wq":
        expect = _norm(orig)
        cmd = b"wq\n"
        target = "f"
    elif mode == "reread":
        # the buffer already holds another text (the previous content of f) when the file is read again into it
        expect = _norm(orig)
        cmd = b"!cp src f\ne!\nw! out\n"
    else:
        expect = _norm(orig)
        k = 0
        while b"@@END%d@@" % k in orig:      # sentinel unique by construction
            k += 1
        sentinel = b"@@END%d@@" % k
        cmd = b"%p\nec " + sentinel + b"\n"
        target = None
    prevlen = 0
    if target == "out":
        pv = {"none": None, "shorter": expect[:len(expect) // 2], "equal": bytes(len(expect) * [0x58]),
              "longer": expect + b"TAIL\n", "much_longer": expect + b"Q" * 9000}[c["prev"]]
        if pv is not None:
            runner.write_file(d, "out", pv)
            prevlen = len(pv)
    if mode == "reread":
        runner.write_file(d, "src", orig)
        runner.write_file(d, "f", {"none": b"", "shorter": b"old\n", "equal": b"old1\nold2\n", "longer": orig + b"old tail\n",
                                   "much_longer": b"".join(b"old %d\n" % i for i in range(700))}[c["prev"]])
        try:
            os.remove(os.path.join(d, "out"))
        except OSError:
            pass
    envx = None
    if c.get("short"):
        envx = {"LD_PRELOAD": env.paths["shim"], "NVFI_PATH": "out", "NVFI_PLAN": ",".join("%d:S%d" % (i, k) for i, k in c["short"])}
    r = runner.run_editor(env.paths["vi"], ["-s", "-e", "f"], cmd + runner.EX_TRAILER, d, want_stats=False, env_extra=envx)
    nt, cl = _nontrivial(c, expect, prevlen)
    if c.get("short"):
        cl.append("short_write_counts")
    cl.append("mode_" + mode)
    if r.crashed() or r.timeout:
        return Outcome(False, nt, cl, detail={"why": "editor crashed or hung", "sig": r.signature()})
    if target is None:
        got = r.out
        msg = b'"f"  [=%d]  [r]' % n
        if not got.startswith(msg):
            return Outcome(False, nt, cl, detail={"why": "read message differs", "got": got[:200], "want": msg})
        got = got[len(msg):]
        if sentinel not in got:
            return Outcome(False, nt, cl, detail={"why": "sentinel missing", "got": got[-200:]})
        got = got[:got.index(sentinel)]
    else:
        got = runner.read_file(d, target)
    if got != expect:
        i = 0
        if got is not None:
            while i < min(len(got), len(expect)) and got[i] == expect[i]:
                i += 1
        return Outcome(False, nt, cl, detail={"why": "bytes differ", "cmd": cmd, "first_diff_at": i,
                                             "got_len": None if got is None else len(got), "want_len": len(expect),
                                             "got_near": None if got is None else got[max(0, i - 20):i + 20],
                                             "want_near": expect[max(0, i - 20):i + 20]})
    if mode == "w_other_first" and runner.read_file(d, "out2") != expect:
        return Outcome(False, nt, cl, detail={"why": "first of two writes differs"})
    return Outcome(True, nt, cl)
