"""C12 - the literal-pattern fast path is indistinguishable from the general regex engine."""
import re
import subprocess
from concurrent.futures import ThreadPoolExecutor

from hypothesis import strategies as st

from engine.core import Outcome
from engine import probe, runner
from models import rx, rxgen

ID = "C12"
LEVEL = "exploration"
RULE = ("(a) exhaustive differential in C (probe/p12.c): {^,-}{\\<,-}literal{\\>,-}{$,-} with literals of <=1 (quick) / <=2 (thorough) "
        "characters over {a B _ space - U+00E9} x all lines of <=4 characters over the same alphabet x 8 flag combinations, rstr_find vs "
        "rset_find; (b) Hypothesis: longer literals/lines incl. multi-byte; (c) classifier: patterns from the regex grammar and random "
        "byte strings must take the fast path only if an independent scanner finds no operator.  Non-trivial = pattern has an anchor or "
        "word boundary and the line has >=2 characters (a), or the unanchored literal occurs in the line (b), or the pattern contains an "
        "operator character (c); distinct by SHA-1 of the case")
ASSUMPTIONS = ["lines are newline terminated", "comparisons in which the general engine hit its depth limit are discarded (hook counter)"]

# (with @ ` ~ DEL and, in lines only, ^ CR ^A: pairs of non-letters that differ in bit 5 alone, which a folding shortcut would equate)
ALPHA = ["a", "B", "b", "A", "_", " ", "-", "é", "É", "日", "1", "x", "@", "`", "~", "\x7f", "!"]
LINE_ONLY = ["^", "\r", "\x01", "\x1f", "\x1e"]
OPS = set("\\.*+?[]{}()$|^")


def prepare(build, tier):
    return {"psrv": probe.build_psrv(build), "p12": build.probe("p12", extra_srcs=["rset.c", "regex.c", "sbuf.c", "uc.c"])}


def budget(tier):
    return (1500, 16) if tier == "quick" else (60000, 16)


@st.composite
def pair_case(draw):
    lit = "".join(draw(st.lists(st.sampled_from(ALPHA), max_size=5)))
    pat = ("^" if draw(st.booleans()) else "") + ("\\<" if draw(st.booleans()) else "") + lit + \
        ("\\>" if draw(st.booleans()) else "") + ("$" if draw(st.booleans()) else "")
    flip = "".join(chr(ord(ch) ^ 0x20) if 0x21 <= (ord(ch) ^ 0x20) < 0x80 or (ord(ch) ^ 0x20) in (1, 0x0d, 0x1e, 0x1f) else ch for ch in lit)
    parts = draw(st.lists(st.one_of(st.sampled_from(ALPHA), st.sampled_from(ALPHA + LINE_ONLY), st.just(lit), st.just(lit.swapcase()), st.just(flip)), max_size=7))
    return {"kind": "pair", "pat": pat, "line": "".join(parts), "flags": draw(st.integers(0, 7)), "lit": lit}


@st.composite
def cls_case(draw):
    k = draw(st.integers(0, 2))
    if k == 0:
        pat = rx.to_pattern(rxgen.from_json(draw(rxgen.pattern_ast)))
    elif k == 1:
        pat = "".join(draw(st.lists(st.sampled_from(["a", "b", "foo", "^", "$", "\\<", "\\>", "|", ".", "*", "(", ")", "[", "]", "{", "}", "+", "?", "\\", " ", "é", "-", "\\.", "\\|"]), max_size=6)))
    else:
        pat = draw(st.binary(min_size=0, max_size=8)).replace(b"\x00", b"a").replace(b"\n", b"b").decode("latin-1")
    return {"kind": "cls", "pat": pat}


def strategy(tier):
    return st.one_of(pair_case(), pair_case(), cls_case())


def _simple_by_scanner(p):
    """independent judgement: ^? (\\<)? literal-without-operators (\\>)? $?"""
    i = 0
    if p[i:i + 1] == "^":
        i += 1
    if p[i:i + 2] == "\\<":
        i += 2
    while i < len(p) and p[i] not in OPS:
        i += 1
    if p[i:i + 2] == "\\>":
        i += 2
    if p[i:i + 1] == "$":
        i += 1
    return i == len(p)


def _pair(p, pat, line, f):
    mflags = 1 if f & 1 else 0
    gflags = (2 if f & 2 else 0) | (4 if f & 4 else 0)
    lineb = (line + "\n").encode("utf-8") if isinstance(line, str) else line
    patb = pat.encode("utf-8") if isinstance(pat, str) else pat
    a = p.call("rs", mflags, gflags, 3, probe.hx(lineb), probe.hx(patb))[0]
    b = p.call("re", mflags, gflags, 3, probe.hx(lineb), 1, probe.hx(patb))[0]
    return a, b, len(lineb)


def run_case(env, c):
    p = probe.get(env)
    try:
        if c["kind"] == "cls":
            pat = c["pat"]
            patb = pat.encode("latin-1") if all(ord(ch) < 256 for ch in pat) and any(ord(ch) > 127 for ch in pat) and not _is_utf8_str(pat) else pat.encode("utf-8")
            a = p.call("rs", 0, 0, 2, probe.hx(b"ab\n"), probe.hx(patb))[0]
            made, lit = a[0], a[1]
            nt = any(ch in OPS for ch in pat)
            want = _simple_by_scanner(patb.decode("latin-1"))
            if made and bool(lit) != want:
                return Outcome(False, nt, ["cls"], detail={"why": "pattern %r: fast path taken=%d but the scanner says literal=%s" % (pat, lit, want)})
            return Outcome(True, nt, ["cls", "literal" if lit else "regex"])
        a, b, n = _pair(p, c["pat"], c["line"], c["flags"])
    except probe.ProbeCrash as e:
        return Outcome(False, True, ["probe_crash"], detail={"why": "memory error", "err": e.err[-1500:], "case": c})
    except probe.ProbeTimeout:
        return Outcome(True, False, ["probe_timeout"], inconclusive=True)
    nt = c["lit"] != "" and c["lit"].lower() in c["line"].lower() and c["pat"] != c["lit"]
    if not a[0] or not b[0]:
        return Outcome(a[0] == b[0], nt, ["pair", "compile_failed"], detail={"why": "one of the two matchers rejected a literal pattern", "rs": a, "re": b})
    if not a[1]:
        return Outcome(False, nt, ["pair"], detail={"why": "an operator-free pattern did not take the fast path", "pat": c["pat"]})
    if b[2] != 0:
        return Outcome(True, False, ["pair", "depcut_discarded"])
    f1, f2 = a[2] >= 0, b[1] >= 0
    fast = (a[4], a[5]) if f1 else None
    eng = (b[3], b[4]) if f2 else None
    if f1 != f2:
        if f2 and eng[0] == n:
            return Outcome(False, nt, ["pair", "F11_after_terminator"], known="F11",
                           detail={"why": "engine matches at the position after the line terminator, fast path does not", "case": c, "fast": fast, "engine": eng})
        return Outcome(False, nt, ["pair"], detail={"why": "found/not-found differs", "case": c, "fast": fast, "engine": eng})
    if f1 and fast != eng:
        return Outcome(False, nt, ["pair"], detail={"why": "offsets differ", "case": c, "fast": fast, "engine": eng})
    if f1 and (a[6], a[7]) != (-1, -1):
        return Outcome(False, nt, ["pair"], detail={"why": "group 1 not reported as unset by the fast path", "got": (a[6], a[7])})
    return Outcome(True, nt, ["pair", "found" if f1 else "notfound"])


def _is_utf8_str(s):
    return True


def extra(env, tier, seed):
    maxlit = 1 if tier == "quick" else 2

    def one(i):
        return subprocess.run([env.paths["p12"], str(maxlit), str(i), "16"], stdout=subprocess.PIPE, stderr=subprocess.PIPE,
                              env={"ASAN_OPTIONS": runner.ASAN_OPTIONS})
    tot = [0, 0, 0, 0]
    classes = {}
    viol = []
    with ThreadPoolExecutor(16) as ex:
        for r in ex.map(one, range(16)):
            out = r.stdout.decode()
            if r.returncode != 0:
                viol.append({"case": {"kind": "pair", "pat": "?", "line": "?", "flags": 0, "lit": "", "crash": r.stderr.decode("utf-8", "replace")[-800:]}})
                continue
            for ln in out.splitlines():
                if ln.startswith("TOTAL"):
                    for i, v in enumerate(ln.split()[1:]):
                        tot[i] += int(v)
                elif ln.startswith("CLASS"):
                    parts = ln.split()
                    key, cnt, ph, lh, fl = parts[1], int(parts[2]), parts[3], parts[4], int(parts[5])
                    pat = bytes.fromhex(ph).decode("utf-8") if ph != "-" else ""
                    line = bytes.fromhex(lh).decode("utf-8")[:-1]
                    ent = classes.setdefault(key, {"count": 0, "example": {"kind": "pair", "pat": pat, "line": line, "flags": fl, "lit": pat.strip("^$").replace("\\<", "").replace("\\>", "")}})
                    ent["count"] += cnt
    known = 0
    for key, ent in classes.items():
        if key.startswith("afterterm:"):
            known += ent["count"]
        viol.append({"case": ent["example"]})      # each class example goes through run_case (known ones are classified there)
    return [{"name": "fastpath_vs_engine_literal_le_%d" % maxlit, "exhaustive": True, "evaluations": tot[0], "fast_path_taken": tot[1],
             "distinct_nontrivial": tot[2], "depcut_discarded": tot[3],
             "mismatch_classes": {k: v["count"] for k, v in classes.items()}, "known_F11_mismatches": known,
             "samples": [{"pattern": "^\\<a\\>$", "line": "a", "flags": 0}, {"pattern": "B$", "line": "aB", "flags": 4}], "violations": viol}]
