"""C16 - UTF-8 character arithmetic agrees with code points; edits keep text valid UTF-8."""
import itertools

from hypothesis import strategies as st

from engine.core import Outcome
from engine import runner, probe
from models import utf8
from . import gen

ID = "C16"
LEVEL = "exploration"
RULE = ("(a) exhaustive: every scalar value U+0001..U+10FFFF through uc_len/uc_code/uc_end/uc_next/uc_prev/uc_beg/uc_off/"
        "uc_chr/uc_slen against an independent encoder; (b) exhaustive: all strings of <=4 (quick) / <=5 (thorough) characters "
        "over {a, TAB, U+00E9, U+0644, U+65E5, U+1F600, U+0301}; (c) random strings up to 200 characters over boundary code "
        "points; (d) random character-wise vi/ex editing programs over multi-byte-dense text whose written file must be valid "
        "UTF-8.  Non-trivial = string with >=2 different encoded lengths (a-c) or program that changed a multi-byte line (d); "
        "distinct by SHA-1 of the case")
ASSUMPTIONS = ["input strings are valid UTF-8 and NUL-free (the property's domain)", "no raw-byte insertion (^V + lead byte) is generated"]

ALPHA7 = ["a", "\t", "é", "ل", "日", "\U0001F600", "́"]
BOUNDARY = [1, 9, 10, 0x20, 0x41, 0x7e, 0x7f, 0x80, 0xa0, 0xe9, 0x7ff, 0x800, 0x644, 0x200c, 0x200d, 0xd7ff, 0xe000, 0xfeff,
            0xfffd, 0xffff, 0x10000, 0x1f600, 0x10ffff, 0x301, 0x65e5, 0xfe8e]


def prepare(build, tier):
    return {"psrv": probe.build_psrv(build), "vi": build.vi_asan(), "prx": build.probe("prx")}


def budget(tier):
    return (1500, 16) if tier == "quick" else (20000, 16)


cp = st.one_of(st.sampled_from(BOUNDARY), st.integers(1, 0x7f), st.integers(0x80, 0x7ff), st.integers(0x800, 0xd7ff),
               st.integers(0xe000, 0xffff), st.integers(0x10000, 0x10ffff))
ustring = st.lists(cp, min_size=0, max_size=200).map(lambda l: b"".join(utf8.encode_cp(c) for c in l))

MBTXT = ["é", "ü", "ل", "ب", "日", "本", "😀", "́", "‌", "Ω", "a", "b", " ", "x", ".", "(", ")"]
mbline = st.lists(st.sampled_from(MBTXT), min_size=1, max_size=14).map("".join)
EDIT_TOK = ["x", "X", "~", "dl", "dh", "dw", "de", "db", "d$", "D", "yl", "yw", "p", "P", "J", "u", ".", "l", "h", "w", "b", "e", "0", "$",
            "j", "k", "3l", "2x", "3X", "2~", "fa", "tb", "Fé", "d0", "dfé", "yy", "dd", "xp", "ddp", "g~w", "gUe", "guu", ">>", "<<"]


@st.composite
def edit_case(draw):
    lines = draw(st.lists(mbline, min_size=1, max_size=5))
    toks = []
    for _ in range(draw(st.integers(1, 14))):
        k = draw(st.integers(0, 9))
        if k <= 5:
            toks.append(draw(st.sampled_from(EDIT_TOK)))
        elif k == 6:
            toks.append("r" + draw(st.sampled_from(MBTXT)))
        elif k == 7:
            t = draw(st.lists(st.sampled_from(MBTXT + ["\x08", "\x17", "\n"]), max_size=5).map("".join))
            toks.append(draw(st.sampled_from(["i", "a", "A", "I", "o", "O", "s", "cw", "cl", "C", "2s"])) + t + "\x1b")
        elif k == 8:
            pat = draw(st.sampled_from(["x*", "", "a*", ".", "é", "[^a]", "日*", "b?", "^", "$", "\\<", "(a|é)", ".*", "()"]))
            rep = draw(st.sampled_from(["-", "", "é", "\\0\\0", "[\\1]", "日"]))
            toks.append(":s/" + pat + "/" + rep + "/" + draw(st.sampled_from(["g", ""])) + "\n")
        else:
            toks.append(":%s/" + draw(st.sampled_from(["x*", "a", ".", "é*"])) + "/" + draw(st.sampled_from(["-", "日"])) + "/g\n")
    return {"kind": "edit", "lines": lines, "keys": "".join(toks)}


@st.composite
def tag_case(draw):
    """:ta puts the cursor on the tag's name in its line: a character offset"""
    pre = draw(mbline)
    post = draw(mbline)
    kw = draw(st.sampled_from(["foo", "t_1", "日本", "é1"]))
    lines = [draw(mbline), pre.replace(kw, "") + kw + post, draw(mbline)]
    return {"kind": "tag", "lines": lines, "kw": kw, "key": draw(st.sampled_from(["r#", "x", "~", "i|\x1b"]))}


@st.composite
def gd_case(draw):
    """gd (go to definition) puts the cursor on the name in the defining line: a character offset"""
    pre = draw(st.lists(st.sampled_from(["é", "日", "😀", "ü", "x", " "]), max_size=6).map("".join))
    kw = draw(st.sampled_from(["foo", "bar1", "t_x"]))
    return {"kind": "gd", "kw": kw, "pre": pre, "key": draw(st.sampled_from(["r#", "x", "i|\x1b"]))}


@st.composite
def macro_overflow_case(draw):
    """N@r / N. with more text than the 4 KiB input queue takes: whatever is dropped, characters must stay whole"""
    ch = draw(st.sampled_from(["€", "é", "😀", "日"]))
    n = draw(st.sampled_from([600, 690, 700, 1000, 1400]))
    if draw(st.booleans()):
        return {"kind": "edit", "lines": ["ax" + ch + "\x1b", "y"], "keys": "\"ay$j%d@a" % n}
    return {"kind": "edit", "lines": ["y", "z"], "keys": "ax" + ch + "\x1bj%d." % n}


@st.composite
def longline_case(draw):
    """registers and commands that copy a whole line through a fixed-size buffer"""
    unit = draw(mbline)
    n = draw(st.sampled_from([1000, 1020, 1022, 1023, 1024, 1025, 1030, 2047, 2048, 2100]))
    line = (unit * (n // max(1, len(unit.encode())) + 2))
    keys = draw(st.sampled_from(['";p', '";P', 'A\x12;\x1b', ':pu ;\n', 'yyp', '";pu', 'ddP', ':co 0\n', ':s/.*/&&/\n', 'J', '$x0x']))
    return {"kind": "edit", "lines": [draw(mbline), line], "keys": "j" + keys}


@st.composite
def hist_case(draw):
    """prompt history (hist > 0): ^A takes the rest of an earlier command line as completion, through a 64-byte buffer"""
    ch = draw(st.sampled_from(["é", "日", "😀", "ل"]))
    k = draw(st.integers(0, 4))
    n = draw(st.integers(10, 45))
    first = ":s/a/" + "x" * k + ch * n + "/\n"
    second = draw(st.sampled_from([":s\x01\n", ":s/\x01\n", ":\x01\n", ":s/a\x01\n", ":s\x01\x01\n"]))
    return {"kind": "edit", "lines": ["a", "a", "a " + ch], "keys": ":se hist=%d\n" % draw(st.sampled_from([1, 8, 100])) + first + "j" + second + "j" + second}


def strategy(tier):
    base = [ustring.map(lambda b: {"kind": "str", "s": b}), edit_case(), edit_case(), tag_case(), longline_case(), hist_case(), gd_case()]
    return st.one_of(*(base * 4 + [macro_overflow_case()]))       # (the overflow cases replay 4 KiB of keys each: few of them)


# ------------------------------------------------------------------ oracle for the uc op
def check_string(p, b):
    seg = utf8.segment(b)
    assert seg is not None
    n = len(seg)
    offs = [o for o, _, _ in seg] + [len(b)]
    r = p.call("uc", probe.hx(b))
    s0, s1, s2, s3, s4 = r
    if s0[0] != n:
        return "uc_slen=%d want %d" % (s0[0], n)
    chr_ = s0[1:]
    for i in range(0, n + 1):       # uc_chr(s, i) for 0 <= i <= n
        if chr_[i + 1] != offs[i]:
            return "uc_chr(%d)->%d want %d" % (i, chr_[i + 1], offs[i])
    if s1[0] != n:
        return "uc_chop n=%d want %d" % (s1[0], n)
    for i in range(n):
        o, l, c, e, nx, pv, ok = s1[1 + 7 * i: 8 + 7 * i]
        wo, wl, wc = seg[i]
        if (o, l, c) != (wo, wl, wc):
            return "char %d: off/len/code %r want %r" % (i, (o, l, c), (wo, wl, wc))
        if e != wo + wl - 1:
            return "uc_end char %d: %d want %d" % (i, e, wo + wl - 1)
        if nx != offs[i + 1]:
            return "uc_next char %d: %d want %d" % (i, nx, offs[i + 1])
        if pv != (offs[i - 1] if i else 0):
            return "uc_prev char %d: %d want %d" % (i, pv, offs[i - 1] if i else 0)
        if not ok:
            return "uc_beg from an interior byte of char %d does not return its start" % i
    if s1[1 + 7 * n] != len(b):
        return "uc_chop terminator"
    for bpos in range(len(b) + 1):
        want = sum(1 for o in offs[:n] if o < bpos)
        if s2[bpos] != want:
            return "uc_off(%d)=%d want %d" % (bpos, s2[bpos], want)
    k = 0
    for i in range(n + 1):
        for j in range(i, n + 1):
            if s3[k] != offs[j] - offs[i]:
                return "uc_sub(%d,%d) length %d want %d" % (i, j, s3[k], offs[j] - offs[i])
            k += 1
    for i in range(n + 1):
        if s4[i] != len(b) - offs[i]:
            return "uc_sub(%d,-1) length" % i
    # mutual consistency: next undoes prev, offset conversion round-trips
    for i in range(n):
        if s2[chr_[i + 1]] != i:
            return "uc_off(uc_chr(%d)) != %d" % (i, i)
    return None


def run_case(env, c):
    if c["kind"] == "rxdec":
        n, bad, why = _prx(env)
        return Outcome(bad == -1, True, ["rxdec"], detail={"why": "regex.c's private decoder disagrees with the encoding at U+%04X: %s" % (max(bad, 0), why)})
    if c["kind"] == "str":
        p = probe.get(env)
        b = c["s"]
        seg = utf8.segment(b)
        nt = seg is not None and len({l for _, l, _ in seg}) >= 2
        try:
            why = check_string(p, b)
        except probe.ProbeCrash as e:
            return Outcome(False, nt, ["str", "probe_crash"], detail={"why": "memory error in UTF-8 helper", "err": e.err[-1500:]})
        if why:
            return Outcome(False, nt, ["str"], detail={"why": why, "s": b})
        return Outcome(True, nt, ["str", "len_%d" % min(len(b) // 50, 4)])
    if c["kind"] == "gd":
        d = env.fresh()
        kw = c["kw"]
        lines = [kw, "int " + c["pre"] + ", " + kw + ";", "z"]
        runner.write_file(d, "t.c", gen.to_bytes(lines))
        stdin = ("gd" + c["key"]).encode("utf-8") + b"\x1b:w! out\n" + runner.VI_TRAILER
        r = runner.run_editor(env.paths["vi"], ["-v", "t.c"], stdin, d, rows=10, cols=60, want_stats=False)
        if r.timeout:
            return Outcome(True, False, ["gd", "timeout"], inconclusive=True)
        if r.crashed():
            return Outcome(False, True, ["gd", "crash"], detail={"why": "editor crashed", "sig": r.signature()})
        out = runner.read_file(d, "out")
        l2 = lines[1]
        i = l2.index(kw)
        w2 = {"r#": l2[:i] + "#" + l2[i + 1:], "x": l2[:i] + l2[i + 1:]}.get(c["key"], l2[:i] + "|" + l2[i:])
        want = gen.to_bytes([lines[0], w2, lines[2]])
        nt = any(ord(ch) > 127 for ch in c["pre"])
        if out != want:
            return Outcome(False, nt, ["gd"], detail={"why": "after gd the command did not act on the first character of the name in its defining line", "got": out, "want": want, "case": c})
        return Outcome(True, nt, ["gd"])
    if c["kind"] == "tag":
        d = env.fresh()
        runner.write_file(d, "f", gen.to_bytes(c["lines"]))
        runner.write_file(d, "tags", ("%s\tf\t2\n" % c["kw"]).encode("utf-8"))
        stdin = (":ta %s\n%s" % (c["kw"], c["key"])).encode("utf-8") + b"\x1b:w! out\n" + runner.VI_TRAILER
        r = runner.run_editor(env.paths["vi"], ["-v", "f"], stdin, d, rows=10, cols=60, want_stats=False)
        if r.timeout:
            return Outcome(True, False, ["tag", "timeout"], inconclusive=True)
        if r.crashed():
            return Outcome(False, True, ["tag", "crash"], detail={"why": "editor crashed", "sig": r.signature()})
        out = runner.read_file(d, "out")
        l2 = c["lines"][1]
        i = l2.index(c["kw"])
        k = c["key"]
        if k == "r#":
            w2 = l2[:i] + "#" + l2[i + 1:]
        elif k == "x":
            w2 = l2[:i] + l2[i + 1:]
        elif k == "~":
            w2 = l2[:i] + l2[i].swapcase() + l2[i + 1:] if ord(l2[i]) < 128 else l2
        else:
            w2 = l2[:i] + "|" + l2[i:]
        want = gen.to_bytes([c["lines"][0], w2, c["lines"][2]])
        nt = any(ord(ch) > 127 for ch in l2[:i])
        if out != want:
            return Outcome(False, nt, ["tag"], detail={"why": "after :ta the command did not act on the first character of the tag's name (cursor offset counted in "
                                                        "something else than characters?)", "got": out, "want": want, "case": c})
        return Outcome(True, nt, ["tag"])
    d = env.fresh()
    src = gen.to_bytes(c["lines"])
    runner.write_file(d, "f", src)
    stdin = c["keys"].encode("utf-8") + b"\x1b:w! out\n" + runner.VI_TRAILER
    r = runner.run_editor(env.paths["vi"], ["-v", "f"], stdin, d, rows=10, cols=40, want_stats=False)
    if r.timeout:
        return Outcome(True, False, ["edit", "timeout"], inconclusive=True)
    if r.crashed():
        return Outcome(False, True, ["edit", "crash"], detail={"why": "editor crashed (C05 domain, reported here too)", "sig": r.signature()})
    out = runner.read_file(d, "out")
    if out is None:
        return Outcome(True, False, ["edit", "no_output"], inconclusive=True)
    nt = out != src
    if not utf8.valid(out):
        bad = next(l for l in out.split(b"\n") if not utf8.valid(l))
        return Outcome(False, nt, ["edit"], detail={"why": "written file is not valid UTF-8", "bad_line": bad, "keys": c["keys"]})
    return Outcome(True, nt, ["edit", "subst" if ":s/" in c["keys"] or ":%s/" in c["keys"] else "keys_only"])


# ------------------------------------------------------------------ exhaustive parts
def _prx(env):
    import subprocess
    r = subprocess.run([env.paths["prx"]], stdout=subprocess.PIPE, stderr=subprocess.PIPE, env={"ASAN_OPTIONS": runner.ASAN_OPTIONS})
    if r.returncode != 0:
        return 0, -2, r.stderr.decode("utf-8", "replace")[-600:]
    n, bad, why = r.stdout.split()
    return int(n), int(bad), {0: "", 1: "uc_len", 2: "uc_dec (code point value)", 3: "uc_beg from an interior byte", 4: "uc_len of a truncated sequence runs past the terminator"}.get(int(why), why)


def extra(env, tier, seed):
    p = probe.Probe(env.paths["psrv"])
    res = []
    # the private copy of the decoders inside regex.c (probe/prx.c includes regex.c): every scalar value
    n, bad, why = _prx(env)
    res.append({"name": "regex_private_decoders_all_scalar_values", "exhaustive": True, "evaluations": n, "distinct_nontrivial": n,
                "space": "U+0001..U+10FFFF minus surrogates", "samples": ["U+00E9", "U+0430", "U+0644", "U+65E5", "U+1F600"],
                "violations": ([{"case": {"kind": "rxdec", "cp": bad}}] if bad != -1 else []), "first_bad": ("U+%04X %s" % (bad, why)) if bad >= 0 else (why if bad == -2 else None)})
    n, bad, why = p.call("enc", 1, 0x110000)[0]
    e = {"name": "all_scalar_values", "exhaustive": True, "evaluations": n, "distinct_nontrivial": n,
         "space": "U+0001..U+10FFFF minus surrogates", "samples": ["U+0041", "U+00E9", "U+65E5", "U+1F600", "U+10FFFF"], "violations": []}
    if bad >= 0:
        e["violations"].append({"case": {"kind": "str", "s": b"x" + utf8.encode_cp(bad)}})
        e["first_bad"] = "U+%04X reason %d" % (bad, why)
    res.append(e)
    maxlen = 4 if tier == "quick" else 5
    cnt = nt = 0
    viol = []
    for L in range(0, maxlen + 1):
        for tup in itertools.product(ALPHA7, repeat=L):
            b = "".join(tup).encode("utf-8")
            cnt += 1
            if len({len(t.encode()) for t in tup}) >= 2:
                nt += 1
            why = check_string(p, b)
            if why and len(viol) < 3:
                viol.append({"case": {"kind": "str", "s": b}})
    res.append({"name": "all_strings_le_%d_over_7" % maxlen, "exhaustive": True, "evaluations": cnt, "distinct_nontrivial": nt,
                "space": "sum 7^k, k<=%d" % maxlen, "samples": ["aé日", "\t😀́a"], "violations": viol})
    p.close()
    return res
