"""C04 - undo and redo restore exact earlier texts, one step per command.

G1: exhaustive operation sequences at the line-buffer interface (probe/p04.c, snapshot model in C)
    + Hypothesis sequences with arbitrary texts, replayed through the same probe.
G2: editor-level histories (ex and vi) checked by a model-free history invariant: the texts
    observed after undo/redo must be exactly the texts observed earlier.
"""
import re
import subprocess
from concurrent.futures import ThreadPoolExecutor

from hypothesis import strategies as st

from engine.core import Outcome
from engine import runner
from . import gen

ID = "C04"
LEVEL = "exploration"
RULE = ("(a) exhaustive: all sequences up to depth 4 (quick) / 5 (thorough) over 32 line-buffer operations (27 edits = "
        "{first,middle,end} x {0,1,2 deleted} x {none,1 line,2 lines}, end-of-command, undo, redo, saved, unsaved-by-partial-write) from buffers of 0-2 "
        "lines, and up to depth 7/8 over a reduced 9-operation alphabet; (b) random line-buffer sequences to length 200 with "
        "arbitrary texts, plus deterministic histories of 120..1030 edits that cross every doubling of the edit log (128..1024 entries) and are undone to the start, redone and undone again; (c) random ex and vi command histories with undo/redo and new edits after undo, the text observed "
        "after every step.  Non-trivial = history with >=2 undos or (>=1 undo and >=1 redo), and >=1 edit (for (c): at "
        "least one compound command or an edit after an undo as well); distinct by SHA-1 of the case")
ASSUMPTIONS = ["every editor command ends with lbuf_modified(); undo, redo and write are commands of their own (this is how ex_command() "
               "and the vi main loop call the line buffer)",
               "a command that leaves the text unchanged may or may not have logged an undo step (e.g. x on an empty line logs one): "
               "both are accepted, the history oracle tracks the set of consistent model states"]


def prepare(build, tier):
    return {"p04": build.probe("p04", extra_srcs=["lbuf.c", "sbuf.c", "uc.c"]), "vi": build.vi_plain()}


def budget(tier):
    return (350, 16) if tier == "quick" else (12000, 16)


# ------------------------------------------------------------------ G1 random
lb_text = st.one_of(st.none(), st.lists(st.sampled_from(["a", "", "bb", "x y", "é日", "t" * 50]), min_size=1, max_size=4).map(lambda l: "\n".join(l)),
                    st.lists(st.sampled_from(["a", "", "bb", "zz"]), min_size=1, max_size=3).map(lambda l: "".join(x + "\n" for x in l)))


@st.composite
def lb_case(draw):
    ops = []
    for _ in range(draw(st.integers(1, 200 if draw(st.booleans()) else 30))):
        k = draw(st.integers(0, 9))
        if k <= 4:
            ops.append(["E", draw(st.integers(0, 12)), draw(st.integers(0, 4)), draw(lb_text)])
        elif k == 5:
            ops.append(["N"])
        elif k <= 7:
            ops.append(["U"])
        elif k == 8:
            ops.append(["R"])
        elif draw(st.booleans()):
            ops.append(["S"])
        else:
            ops.append(["P"])
    return {"kind": "lb", "start": draw(st.integers(0, 2)), "ops": ops}


# ------------------------------------------------------------------ G2 generators
def _tok(i):
    return "t%d" % i


@st.composite
def ex_hist(draw):
    nlines = draw(st.integers(0, 6))
    lines = ["l%d %s" % (i, draw(st.sampled_from(["foo", "bar", "x", "a b", "é"]))) for i in range(nlines)]
    steps = []
    n = draw(st.integers(2, 25))
    addr = st.one_of(st.integers(0, 8).map(str), st.sampled_from(["$", ".", "1", "2", ".+1", "$-1"]))
    rng = st.one_of(addr, st.tuples(addr, addr).map(lambda t: t[0] + "," + t[1]), st.just("%"), st.just(""))
    for i in range(n):
        k = draw(st.integers(0, 19))
        a = draw(rng)
        if k <= 2:
            cnt = draw(st.integers(1, 3))
            blk = "".join("%s.%d\n" % (_tok(i), j) for j in range(cnt)) + ".\n"
            steps.append(("mod", a + draw(st.sampled_from(["a", "i", "c"])) + "\n" + blk))
        elif k == 3:
            steps.append(("mod", a + "d\n"))
        elif k == 4:
            steps.append(("mod", a + "s/^/" + _tok(i) + "/\n"))
        elif k == 5:
            steps.append(("mod", "%s/[a-z]/" + draw(st.sampled_from(["X", "Y", ""])) + "/g\n"))
        elif k == 6:
            steps.append(("mod", draw(st.sampled_from(["g", "v"])) + "/" + draw(st.sampled_from(["foo", "l[0-3]", "t", "x", "."])) + "/" +
                          draw(st.sampled_from(["d", "s/$/" + _tok(i) + "/", "s/l/L/", ".,+1d", "-1d"])) + "\n"))
        elif k == 7:
            steps.append(("mod", a + "!" + draw(st.sampled_from(["tr a-z A-Z", "sort -r", "sed s/$/" + _tok(i) + "/", "cat; echo " + _tok(i)])) + "\n"))
        elif k == 8:
            steps.append(("nomod", a + "y a\n"))
            steps.append(("mod", draw(addr) + "pu a\n"))
        elif k == 9:
            steps.append(("mod", draw(addr) + "d|" + draw(addr) + "s/$/" + _tok(i) + "/\n"))
        elif k == 10:
            steps.append(("mod", draw(addr) + "r " + draw(st.sampled_from(["aux", "auxn", "aux1", "!printf x", "!head -c 3 aux"])) + "\n"))
        elif k == 11:
            # (writes of the whole buffer or of a range to the own file do not change the text and must not disturb undo grouping)
            steps.append(("nomod", draw(st.sampled_from([a + "p", a + "=", a + "k a", a, "w!", "1,1w!", "w! other", "1w!"])) + "\n"))
        elif k <= 15:
            steps.append(("u", "u\n"))
        elif k <= 17:
            steps.append(("r", "redo\n"))
        else:
            steps.append(("mod", draw(st.sampled_from(["g/./s/$/" + _tok(i) + "/|s/^/" + _tok(i) + "/", "g/l/g/foo/d", "1,$d", "0a\n" + _tok(i) + "\n."])) + "\n"))
    return {"kind": "ex", "lines": lines, "steps": [list(s) for s in steps]}


VI_MOD = ["x", "3x", "X", "dd", "2dd", "dw", "d$", "D", "dj", "dk", "dG", "d}", "J", "3J", "p", "P", "2p", "3P", ">>", "2>>", "<<", ">}", "~", "4~",
          "g~~", "gUw", "guu", "rZ", "2rQ", "ddp", "yyp", "xp", "!}sort\n", "!!tr a-z A-Z\n", ":g/o/s/o/0/\n", ":%s/a/A/g\n", ":2,3d\n", ":$d\n",
          ":1,2!sed s/^/Q/\n", ":g/./d\n", "d0", "dl", "dh", "de", "db"]
VI_NOMOD = ["j", "k", "w", "b", "$", "0", "G", "1G", "l", "h", "yy", "yw", "\"ayy", "2j", "^", "e", "}", "{", "H", "L", "\x07", "ma", "'a",
            ":w!\n", ":1,1w!\n", ":1w!\n"]
VI_INS = ["i", "a", "I", "A", "o", "O", "s", "C", "cw", "c$", "cj", "cb", "2cw", "cG", "ck", "cc", "S", "2cc"]


@st.composite
def vi_hist(draw):
    nlines = draw(st.integers(0, 7))
    lines = [draw(st.sampled_from(["foo bar", "  indented", "x", "", "a.b c", "é 日本", "one two three", "\ttab"])) + (" %d" % i if i % 2 else "")
             for i in range(nlines)]
    steps = []
    for i in range(draw(st.integers(2, 25))):
        k = draw(st.integers(0, 19))
        if k <= 4:
            t = draw(st.sampled_from(VI_MOD))
            if t in ("ddp", "yyp", "xp"):
                steps.append(("mod" if t != "yyp" else "nomod", t[:-1]))
                steps.append(("mod", t[-1]))
            else:
                steps.append(("mod", t))
        elif k <= 8:
            txt = draw(st.sampled_from([_tok(i), _tok(i) + "\n" + _tok(i) + "b", " ", _tok(i) + "\x08", "é" + _tok(i), "\n", "a\nb\nc", ""]))
            steps.append(("mod", draw(st.sampled_from(VI_INS)) + txt + "\x1b"))
        elif k <= 10:
            steps.append(("nomod", draw(st.sampled_from(VI_NOMOD))))
        elif k <= 15:
            steps.append(("u", "u"))
        elif k <= 17:
            steps.append(("r", "\x12"))
        else:
            steps.append(("mod", "."))
    return {"kind": "vi", "lines": lines, "steps": [list(s) for s in steps], "rows": draw(st.sampled_from([5, 8, 24])),
            "noru": draw(st.booleans())}


def strategy(tier):
    return st.one_of(lb_case(), ex_hist(), ex_hist(), vi_hist(), vi_hist())


# ------------------------------------------------------------------ oracles
def _hist_oracle(kinds, texts, t0):
    """kinds[i] in mod/nomod/u/r, texts[i] = text observed after step i.  Returns (ok, why, info).
    Non-deterministic model: set of (stack tuple, ptr)."""
    states = {((t0,), 0)}
    cur = t0
    info = {"undos": 0, "redos": 0, "mods": 0, "ambiguous": 0, "edit_after_undo": False, "cut": False}
    last_was_undo = False
    for i, (k, t) in enumerate(zip(kinds, texts)):
        if t is None:
            return True, None, info        # observation lost (quit, etc.): stop
        new = set()
        if k == "nomod":
            if t != cur:
                return False, "step %d: a non-modifying command changed the text" % i, info
            new = states
        elif k == "mod":
            if t != cur:
                info["mods"] += 1
                if last_was_undo:
                    info["edit_after_undo"] = True
                for st_, p in states:
                    new.add((st_[:p + 1] + (t,), p + 1))
            else:
                info["ambiguous"] += 1
                for st_, p in states:
                    new.add((st_, p))
                    new.add((st_[:p + 1] + (t,), p + 1))
        elif k == "u":
            info["undos"] += 1
            for st_, p in states:
                if p == 0:
                    if t == cur:
                        new.add((st_, p))
                elif st_[p - 1] == t:
                    new.add((st_, p - 1))
            if not new:
                exp = sorted({(st_[p - 1] if p else cur) for st_, p in states})
                return False, "step %d: undo produced a text that is not the text before the last not-yet-undone change" % i, \
                    dict(info, got=t, expected_one_of=exp[:3])
        elif k == "r":
            info["redos"] += 1
            for st_, p in states:
                if p == len(st_) - 1:
                    if t == cur:
                        new.add((st_, p))
                elif st_[p + 1] == t:
                    new.add((st_, p + 1))
            if not new:
                exp = sorted({(st_[p + 1] if p < len(st_) - 1 else cur) for st_, p in states})
                return False, "step %d: redo did not reinstate what the matching undo removed" % i, dict(info, got=t, expected_one_of=exp[:3])
        last_was_undo = k == "u"
        states = new
        cur = t
        if len(states) > 64:
            info["cut"] = True
            return True, None, info
    return True, None, info


def _run_lb(env, c):
    args = [env.paths["p04"], "run", str(c["start"])]
    codes = {"N": "27", "U": "28", "R": "29", "S": "30", "P": "31"}
    nu = nr = ne = 0
    for op in c["ops"]:
        if op[0] == "E":
            t = op[3]
            if t == "":
                t = None
            args.append("E:%d:%d:%s" % (op[1], op[2], "-" if t is None else t.encode("utf-8").hex()))
            ne += 1
        else:
            args.append(codes[op[0]])
            nu += op[0] == "U"
            nr += op[0] == "R"
    r = subprocess.run(args, stdout=subprocess.PIPE, stderr=subprocess.PIPE, env={"ASAN_OPTIONS": runner.ASAN_OPTIONS})
    nt = ne >= 1 and (nu >= 2 or (nu >= 1 and nr >= 1))
    if r.returncode != 0:
        return Outcome(False, nt, ["lb"], detail={"why": r.stdout.decode()[-300:] + r.stderr.decode("utf-8", "replace")[-1500:]})
    return Outcome(True, nt, ["lb"])


SENT = re.compile(rb"@@([AB])(\d+)@@")


def _run_ex(env, c):
    d = env.fresh()
    t0 = gen.to_bytes(c["lines"])
    runner.write_file(d, "f", t0)
    runner.write_file(d, "aux", b"aux1\naux2\n")
    runner.write_file(d, "auxn", b"n1\nn2\nn3")          # last line unterminated
    runner.write_file(d, "aux1", b"single")
    script = ["se wa\n"]
    for i, (k, cmd) in enumerate(c["steps"]):
        script.append(cmd)
        script.append("%%w! snap%d\n" % i)
    stdin = "".join(script).encode("utf-8") + runner.EX_TRAILER
    r = runner.run_editor(env.paths["vi"], ["-s", "-e", "f"], stdin, d, want_stats=False)
    if r.timeout or r.crashed():
        return None, None, r
    texts = [runner.read_file(d, "snap%d" % i) for i in range(len(c["steps"]))]
    # twin run without any observer between the commands: same final text expected
    runner.write_file(d, "f", t0)           # (the history may have written the file: the twin starts from the same file)
    script = ["se wa\n"] + [cmd for k, cmd in c["steps"]] + ["%w! final\n"]
    r2 = runner.run_editor(env.paths["vi"], ["-s", "-e", "f"], "".join(script).encode("utf-8") + runner.EX_TRAILER, d, want_stats=False)
    if r2.timeout or r2.crashed():
        return None, None, r2
    r.twin = runner.read_file(d, "final")
    return t0, texts, r


def _run_vi(env, c):
    d = env.fresh()
    t0 = gen.to_bytes(c["lines"])
    runner.write_file(d, "f", t0)
    pre = ":se wa\n" + (":se ru=0\n" if c.get("noru") else "")    # ru=1 calls lbuf_modified() for the status line on every key
    keys = [pre]
    for i, (k, cmd) in enumerate(c["steps"]):
        keys.append(cmd)
        keys.append("\x1b:%%w! snap%d\n" % i)
    stdin = "".join(keys).encode("utf-8") + runner.VI_TRAILER
    r = runner.run_editor(env.paths["vi"], ["-v", "f"], stdin, d, rows=c["rows"], cols=60, want_stats=False)
    if r.timeout or r.crashed():
        return None, None, r
    texts = [runner.read_file(d, "snap%d" % i) for i in range(len(c["steps"]))]
    runner.write_file(d, "f", t0)
    keys = [pre] + [cmd for k, cmd in c["steps"]] + ["\x1b:%w! final\n"]
    r2 = runner.run_editor(env.paths["vi"], ["-v", "f"], "".join(keys).encode("utf-8") + runner.VI_TRAILER, d, rows=c["rows"], cols=60, want_stats=False)
    if r2.timeout or r2.crashed():
        return None, None, r2
    r.twin = runner.read_file(d, "final")
    return t0, texts, r


def run_case(env, c):
    if c["kind"] == "lb":
        return _run_lb(env, c)
    t0, texts, r = (_run_ex if c["kind"] == "ex" else _run_vi)(env, c)
    if texts is None:
        if r.timeout:
            return Outcome(True, False, [c["kind"], "timeout"], inconclusive=True)
        return Outcome(False, False, [c["kind"], "crash"], detail={"why": "editor crashed", "sig": r.signature()})
    kinds = [s[0] for s in c["steps"]]
    ok, why, info = _hist_oracle(kinds, texts, t0)
    compound = any(any(x in s[1] for x in ("g/", "v/", "!", "|", "%s", "\n" + "t")) or (s[1][:1].isdigit() and s[0] == "mod") for s in c["steps"])
    nt = info["mods"] >= 1 and (info["undos"] >= 2 or (info["undos"] >= 1 and info["redos"] >= 1)) and (compound or info["edit_after_undo"])
    cl = [c["kind"]] + (["ambiguous_noop_edit"] if info["ambiguous"] else []) + (["state_set_cut"] if info["cut"] else []) + \
        (["edit_after_undo"] if info["edit_after_undo"] else [])
    if not ok:
        return Outcome(False, nt, cl, detail={"why": why, "info": info, "steps": c["steps"], "lines": c["lines"]})
    if texts and texts[-1] is not None and r.twin is not None and r.twin != texts[-1]:
        return Outcome(False, nt, cl, detail={"why": "the same history without the interleaved ':w! other-file' observers ends in a different text "
                                                     "(a write to another file must not affect undo grouping)",
                                              "with_observers": texts[-1], "without": r.twin, "steps": c["steps"], "lines": c["lines"]})
    return Outcome(True, nt, cl)


# ------------------------------------------------------------------ exhaustive
def extra(env, tier, seed):
    p = env.paths["p04"]
    d_full, d_small = (4, 7) if tier == "quick" else (5, 8)
    jobs = [("full", d_full, f) for f in range(32)] + [("small", d_small, f) for f in range(9)]

    def one(j):
        r = subprocess.run([p, "enum", str(j[1]), j[0], str(j[2])], stdout=subprocess.PIPE, stderr=subprocess.PIPE,
                           env={"ASAN_OPTIONS": runner.ASAN_OPTIONS})
        return j, r
    res = {"full": [0, 0, 0, []], "small": [0, 0, 0, []]}
    with ThreadPoolExecutor(16) as ex:
        for j, r in ex.map(one, jobs):
            out = r.stdout.decode().strip()
            if r.returncode == 0 and out.startswith("OK"):
                a = [int(x) for x in out.split()[1:]]
                for i in range(3):
                    res[j[0]][i] += a[i]
            else:
                m = re.match(r"FAIL (\d+)((?: \d+)+) :", out)
                if m:
                    ops = [int(x) for x in m.group(2).split()]
                    enc_ops = []
                    for o in ops:
                        if o < 27:
                            enc_ops.append(["X", o])
                        else:
                            enc_ops.append([{27: "N", 28: "U", 29: "R", 30: "S", 31: "P"}[o]])
                    res[j[0]][3].append({"case": {"kind": "lbenum", "start": int(m.group(1)), "ops": ops}, "text": out})
                else:
                    res[j[0]][3].append({"case": {"kind": "lbenum", "start": 0, "ops": []}, "text": out + r.stderr.decode("utf-8", "replace")[-800:]})
    outl = []
    for name, depth in (("full", d_full), ("small", d_small)):
        n, ops, nt, viol = res[name]
        outl.append({"name": "lbuf_all_sequences_depth_le_%d_%s_alphabet" % (depth, "32-op" if name == "full" else "9-op"),
                     "exhaustive": True, "evaluations": n, "operations": ops, "distinct_nontrivial": nt,
                     "samples": ["start=1 ops: E(first,del 1,'a') N U R E(end,del 0,'b c')", "start=2 ops: E(mid,1,NULL) U U R S U"],
                     "violations": viol[:2]})
    outl.append(_growth_family(env, seed))
    return outl


def _growth_case(n, seed, group):
    """n edits in commands of `group` edits each, then every step undone (two more undos must fail), redone, undone again."""
    texts = ["a", None, "bb\ncc", "é日", "zz\n", "x y\nq\nr"]
    ops, steps = [], 0
    for i in range(n):
        ops.append(["E", (i * 7 + seed) % 9, (i + seed) % 3, texts[(i * 5 + seed) % len(texts)]])
        if (i + 1) % group == 0 or i == n - 1:
            ops.append(["N"])
            steps += 1
    ops += [["U"]] * (steps + 2) + [["R"]] * (steps + 2) + [["U"]] * (steps // 2) + [["E", 0, 1, "new"], ["N"], ["R"], ["U"]] + [["U"]] * steps
    return {"kind": "lb", "start": (n + seed) % 3, "ops": ops}


def _growth_family(env, seed):
    """The edit log (hist[]) starts with room for 128 entries and doubles: histories that cross 128, 256, 512 and 1024 entries."""
    ns = sorted(set(list(range(120, 140)) + list(range(250, 262)) + list(range(508, 518)) + [1023, 1024, 1025, 1030]))
    # the probe's snapshot model keeps at most 1024 steps (MAXH in p04.c): the histories past 1000 edits use commands of 3 edits
    cases = [_growth_case(n, seed, g) for n in ns for g in (1, 3) if n // g < 900]
    viol = []
    with ThreadPoolExecutor(16) as ex:
        for c, o in zip(cases, ex.map(lambda c: _run_lb(env, c), cases)):
            if not o.ok:
                viol.append({"case": c, "text": str((o.detail or {}).get("why"))[:600]})
    return {"name": "lbuf_histories_across_the_growth_of_the_edit_log_128_to_1024", "exhaustive": False, "evaluations": len(cases),
            "distinct_nontrivial": len(cases),
            "samples": ["130 single-edit commands, 132 undos, 132 redos, 65 undos, a new edit, a redo that must fail, undo to the start",
                        "1025 edits in commands of 3, all undone, redone, half undone, new edit, undone to the start"],
            "violations": viol[:2]}


_orig_run_case = run_case


def run_case(env, c):  # noqa: F811  (adds the replay form of enumerated failures)
    if c["kind"] == "lbenum":
        r = subprocess.run([env.paths["p04"], "run", str(c["start"])] + [str(o) for o in c["ops"]], stdout=subprocess.PIPE,
                           stderr=subprocess.PIPE, env={"ASAN_OPTIONS": runner.ASAN_OPTIONS})
        if r.returncode != 0:
            return Outcome(False, True, ["lbenum"], detail={"why": r.stdout.decode()[-300:] + r.stderr.decode("utf-8", "replace")[-1200:]})
        return Outcome(True, True, ["lbenum"])
    return _orig_run_case(env, c)
