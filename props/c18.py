"""C18 - bidi reordering is a permutation reversing exactly the opposite-direction runs."""
import itertools

from hypothesis import strategies as st

from engine.core import Outcome
from engine import probe
from models import layout, bidi

ID = "C18"
LEVEL = "exploration"
RULE = ("(a) exhaustive shaping: every letter of the joining set (42 Arabic/Persian letters, tatweel) x previous neighbour in {none, Latin, "
        "right-joining alef, dual-joining beh, tatweel, ZWJ, ZWNJ} x next neighbour in {none, space, beh, alef, ZWJ, ZWNJ} x {no diacritic, "
        "diacritic before, diacritic after}; (b) Hypothesis: lines mixing Latin, digits, neutrals, Arabic/Persian letters, diacritics, ZWJ/ZWNJ "
        "and the configured mark patterns x td in -2..2 x order in {0,1,2}: dir_reorder on an identity-initialised order must give a "
        "permutation with the terminator last; the columns ren_position assigns under (order, textdirection, linelimit) must be the prefix sums "
        "of the cell widths in exactly that visual order (logical order when the options switch reordering off); identity for plain lines; exactly the reversed runs for lines without mark characters; "
        "uc_shape must return a presentation form of the same letter with the form implied by its joining neighbours (Unicode character "
        "database), NULL/unchanged for non-Arabic.  Non-trivial = line with a run of length >=2 of the opposite direction containing a "
        "neutral; distinct by SHA-1 of the case")
ASSUMPTIONS = ["direction data (CR2L, CNEUT, mark patterns) are configuration read from conf.h of the tree under test",
               "joining behaviour is derived from the Unicode character database of the Python runtime (decompositions of U+FB50-U+FEFF)"]

LAT = ["a", "b", "Z", "1", "9", "_"]
NEU = [" ", ".", ",", "-", "(", ")", "!", ":", "/", " ", "^", "~", "@", "#", "%", "&", "+", "=", "?", ";", "<", ">", "|", "\""]
ARA = ["ا", "ب", "ل", "م", "ی", "ک", "ه", "و", "ء", "ـ", "پ", "؟", "،"]
DIA = ["َ", "ّ", "ٰ"]
ZW = ["‌", "‍"]
MARKS = ["\\*[ab]", "$x+1$", "\\foo{bar}", "\\emph{ب}", "$", "\\", "`", "'", "{", "}", "[", "]", "*"]


def prepare(build, tier):
    return {"psrv": probe.build_psrv(build), "src": build.src}


def budget(tier):
    return (1500, 16) if tier == "quick" else (40000, 16)


@st.composite
def case(draw):
    withmarks = draw(st.integers(0, 3)) == 0
    pools = [LAT, LAT, NEU, ARA, ARA, DIA, ZW] + ([MARKS, MARKS] if withmarks else [])
    parts = draw(st.lists(st.sampled_from(pools).flatmap(st.sampled_from), max_size=16))
    s = "".join(parts)
    return {"s": s, "td": draw(st.integers(-2, 2)), "order": draw(st.sampled_from([1, 1, 2, 2, 0])), "shape": draw(st.booleans()),
            "lim": draw(st.sampled_from([256, 256, 256, len(s) + 1, len(s), 0]))}


def strategy(tier):
    return case()


_tabs = {}


def marks(env):
    if "m" not in _tabs:
        _tabs["m"] = bidi.Marks(env.paths["src"])
    return _tabs["m"]


def tables(env):
    if "t" not in _tabs:
        _tabs["t"] = layout.Tables(env.paths["src"])
    return _tabs["t"]


def check_shape(p, s, shape=1):
    cps = [ord(ch) for ch in s]
    r = p.call("shape", probe.hx(s), shape)[0]
    if r[0] != len(cps):
        return "shape: character count"
    for i, c in enumerate(cps):
        res, tr = r[1 + 2 * i], r[2 + 2 * i]
        isr2l = (c & 0xff00) == 0x0600 or (c & 0xfffc) == 0x200c or (c & 0xff00) in (0xfb00, 0xfc00, 0xfe00)
        if not isr2l:
            if res != -1:
                return "uc_shape altered the non-Arabic character U+%04X" % c
            continue
        if c in bidi.LETTERS or c == bidi.TATWEEL:
            want = bidi.expected_shape(cps, i)
            if res not in want:
                return "letter U+%04X at %d shaped as U+%04X, expected one of %s" % (c, i, res, ["U+%04X" % w for w in sorted(want)])
        else:
            # other characters of the Arabic blocks: must stay themselves or become a presentation form of themselves
            if res != c and res not in bidi.FORMS.get(c, {}).values():
                return "U+%04X changed into U+%04X" % (c, res)
    return None


def run_case(env, c):
    p = probe.get(env)
    t = tables(env)
    s = c["s"]
    line = s + "\n"
    n = len(line)
    ctx = bidi.context(s if s else line, c["td"], t)
    hasmark = any(ch in "\\$`'*[]{}" for ch in s)
    opp = [ch in t.cr2l for ch in s] if ctx > 0 else [ch in bidi.L_CHARS for ch in s]
    # non-triviality: an opposite-direction run of length >= 2 that contains a neutral
    nt = False
    i = 0
    while i < len(s):
        if opp[i]:
            j = i
            while j + 1 < len(s) and (opp[j + 1] or s[j + 1] in t.cneut):
                j += 1
            while j > i and not opp[j]:
                j -= 1
            if j - i >= 2 and any(not opp[k] for k in range(i, j + 1)):
                nt = True
            i = j + 1
        else:
            i += 1
    cl = ["ctx_%+d" % ctx, "marks" if hasmark else "nomarks"]
    try:
        r = p.call("dir", probe.hx(line), c["td"], c["order"])[0]
        got_ctx, gn, ordv = r[0], r[1], r[2:]
        if gn != n or sorted(ordv) != list(range(n)):
            return Outcome(False, nt, cl, detail={"why": "visual order is not a permutation of the characters", "order": ordv, "case": c})
        if ordv[n - 1] != n - 1:
            return Outcome(False, nt, cl, detail={"why": "terminator is not last", "order": ordv, "case": c})
        if got_ctx != ctx:
            return Outcome(False, nt, cl, detail={"why": "base direction %d, documented rule gives %d" % (got_ctx, ctx), "case": c})
        if not hasmark:
            want = bidi.reorder(s, ctx, t) + [n - 1]
            if ordv != want:
                return Outcome(False, nt, cl, detail={"why": "runs not reversed as documented", "got": ordv, "want": want, "case": c})
        else:
            # lines with mark characters: the documented procedure over the configured patterns (models/bidi.reorder_marks; the
            # patterns are run by Python's re, not by the engine under test)
            want = bidi.reorder_marks(s, ctx, marks(env)) + [n - 1]
            if ordv != want:
                return Outcome(False, nt, cl, detail={"why": "direction marks not applied as documented (span reversed in a right-to-left line, inner group in its own "
                                                      "direction)", "got": ordv, "want": want, "case": c})
        if True:
            # the same order as seen by the renderer: ren_position() reorders when the order option asks for it (2: always,
            # 1: lines with a non-ASCII character, 0: never) and the line is within linelimit; the columns are then the
            # prefix sums of the cell widths in that visual order
            lim = c.get("lim", 256)
            on = n <= lim and (c["order"] == 2 or (c["order"] == 1 and any(ord(ch) >= 128 for ch in line)))
            vis = want if on else list(range(n))
            rr = p.call("ren", probe.hx(line), c["order"], c["td"], lim)[0]
            pos = rr[1:]
            inv = [0] * n
            for i, v in enumerate(vis):
                inv[v] = i
            col = 0
            wantpos = [0] * n
            for v in range(n):
                wantpos[inv[v]] = col
                col += t.cwid(ord(line[inv[v]]), col)
            if rr[0] != n or pos[:n] != wantpos or pos[n] != col:
                return Outcome(False, nt, cl, detail={"why": "columns assigned by ren_position (order=%d, linelimit=%d) do not follow the documented visual order"
                                                      % (c["order"], lim), "got": pos, "want": wantpos + [col], "visual": vis, "case": c})
            cl.append("renderer_reorders" if on and vis != list(range(n)) else "renderer_logical")
        why = check_shape(p, line, 1)
        if why:
            return Outcome(False, nt, cl, detail={"why": why, "case": c})
    except probe.ProbeCrash as e:
        return Outcome(False, nt, cl + ["probe_crash"], detail={"why": "memory error in reordering/shaping", "err": e.err[-1500:], "case": c})
    return Outcome(True, nt, cl + (["opposite_run"] if any(opp) else ["plain"]))


def extra(env, tier, seed):
    p = probe.Probe(env.paths["psrv"])
    prevs = ["", "a", "ا", "ب", "ـ", "‍", "‌"]
    nexts = ["", " ", "ب", "ا", "‍", "‌"]
    n = 0
    viol = []
    for c in bidi.LETTERS + [bidi.TATWEEL]:
        for pv, nx, dia in itertools.product(prevs, nexts, (0, 1, 2)):
            s = pv + ("َ" if dia == 1 and pv else "") + chr(c) + ("ّ" if dia == 2 else "") + nx + "\n"
            n += 1
            why = check_shape(p, s, 1)
            if why and len(viol) < 3:
                viol.append({"case": {"kind": "shape", "s": s}, "why": why})
    p.close()
    return [{"name": "every_letter_in_every_joining_context", "exhaustive": True, "evaluations": n, "distinct_nontrivial": n,
             "samples": ["بب", "ابا", "لَا"], "violations": [{"case": v["case"]} for v in viol]}]


_rc = run_case


def run_case(env, c):  # noqa: F811
    if c.get("kind") == "shape":
        p = probe.get(env)
        why = check_shape(p, c["s"], 1)
        return Outcome(why is None, True, ["shape"], detail={"why": why, "s": c["s"]})
    return _rc(env, c)
