"""C08 - vi operators, inserts, puts and registers transform text per the reference model."""
from hypothesis import strategies as st

from engine.core import Outcome
from engine import runner
from models import vim, layout
from . import gen, viutil

ID = "C08"
LEVEL = "exploration"
RULE = ("Hypothesis: programs of 1-8 editing commands (operator x motion incl. doubled operators, x X D C s S Y p P J r ~, i a I A o O with typed text "
        "containing ^H ^W ^U ^V and newlines, counts before and after the operator, register prefixes a-z A-Z 0-9) mixed with motions, on the C07 "
        "text family incl. empty buffers and lines; observed: written file, cursor marker, and a dump of every register touched (put at the end of "
        "the buffer); compared with models/vim.py.  Non-trivial = at least two of: an operator over a multi-line region; an inclusive motion or a count overrunning the line; a put of a register that an earlier command of the same program wrote (all three are counted separately in coverage.classes); distinct by SHA-1 of the case")
ASSUMPTIONS = ["autoindent on or off per case; the reference models the line editor incl. ^H ^W ^U ^V ^T ^D and autoindent carry-over", "left-to-right text", "calibrations of the reference: any line-wise or "
               "multi-line store into the unnamed or a letter register rotates 1-9; a named register does not also set the unnamed one; o/O/p/P on an empty "
               "buffer first create an empty line; upper-case names are write-only (append)"]

ATOMS = ["foo", "bar", "a", "x1", " ", " ", "  ", "\t", ".", "(", ")", "-", "é", "日", "😀", "ß", "o", "Ab"]
line = st.one_of(st.lists(st.sampled_from(ATOMS), max_size=8).map("".join), st.just(""), st.just(" x"))
count = st.sampled_from([0, 0, 0, 0, 0, 0, 0, 0, 1, 1, 2, 2, 3, 3, 4, 4, 9, 9, 65536, 2147483648, 4294967295, 4294967298])
MOTS = ["h", "l", "j", "k", "0", "^", "$", "w", "b", "e", "W", "B", "E", "G", "+", "-", "_", "{", "}", " ", "\x7f", "%", ";", ",", "H", "L", "|"]
TYPED = ["foo", "é日", "a b", "x\ny", "", " ", "bar\x08z", "q w\x17e", "abc\x15d", "\x16\tz", "1\n2\n3", "  in", "\n", "\x14x\ny", "a\n\x04b", "  p\nq\n\x04r",
         "\x14\x14k\n\x04l", " \n x", "\x04z", "\tt\n\n u"]
REGW = ["", "", "", "a", "a", "b", "A", "B", "c", "1", "3"]
REGR = ["", "", "", "a", "a", "b", "b", "c", "1", "2", "3"]


def prepare(build, tier):
    return {"vi": build.vi_plain(), "src": build.src}


def budget(tier):
    return (1500, 16) if tier == "quick" else (30000, 16)


@st.composite
def mot(draw):
    k = draw(st.integers(0, 9))
    if k <= 6:
        return [draw(st.sampled_from(MOTS)), None]
    return [draw(st.sampled_from("fFtT")), draw(st.sampled_from(["o", "a", " ", ".", "é", "x", ")"]))]     # (marks: C06/C07; they move with edits)


@st.composite
def command(draw):
    k = draw(st.integers(0, 21))
    c1, c2 = draw(count), draw(st.sampled_from([0, 0, 0, 0, 0, 0, 2, 2, 3, 3, 65536]))
    reg = draw(st.sampled_from(REGW))
    if k <= 5:
        op = draw(st.sampled_from(["d", "d", "c", "y", "y", "<", ">", "g~", "gu", "gU"]))
        if draw(st.integers(0, 3)) == 0:
            m = ["same", None]
        else:
            m = draw(mot())
        if op == "c" and m[0] in ("f", "F", "t", "T", ";", ",", "%", "'", "`"):
            m = ["w", None]         # a change whose motion fails would leave its text to be typed as commands: only motions that cannot fail
        if m[0] in ("%", "0"):
            c1 = c2 = 0             # N% is the line-percentage motion, N0 is a count
        return {"k": "op", "op": op, "reg": reg, "c1": c1, "c2": c2, "m": m, "typed": draw(st.sampled_from(TYPED)) if op == "c" else None}
    if k <= 8:
        return {"k": "short", "key": draw(st.sampled_from(["x", "X", "D", "Y", "x", "X", "~"])), "reg": reg, "c1": c1}
    if k == 9:
        return {"k": "short", "key": draw(st.sampled_from(["C", "s", "S"])), "reg": reg, "c1": c1, "typed": draw(st.sampled_from(TYPED))}
    if c1 > 1000 and k > 8:
        c1 = 3              # (N copies of a register, N joins ... are executed literally: resource use, not the property)
    if k <= 13:
        return {"k": "put", "key": draw(st.sampled_from("pP")), "reg": draw(st.sampled_from(REGR)), "c1": c1}
    if k == 14 and c1 != 9:
        return {"k": "join", "c1": c1}
    if k == 15 and c1 < 4:
        return {"k": "repl", "c1": c1, "ch": draw(st.sampled_from(["Z", "é", "\n", " ", "日"]))}
    if k <= 18:
        return {"k": "ins", "key": draw(st.sampled_from("iaIAoO")), "typed": draw(st.sampled_from(TYPED))}

    m = draw(mot())
    if m[0] in ("%", "0"):
        c1 = 0
    return {"k": "move", "m": m, "c1": c1}


@st.composite
def case(draw):
    cmds = draw(st.lists(command(), min_size=1, max_size=8))
    # most puts read a register that an earlier command of the same program wrote (the interaction the property is about)
    touched = []
    for x in cmds:
        if x["k"] == "put" and touched and draw(st.integers(0, 3)) != 0:
            x["reg"] = draw(st.sampled_from(touched))
        if (x["k"] == "op" and x["op"] in "dcy") or (x["k"] == "short" and x["key"] in "xXDYCsS"):
            touched.append((x["reg"] or "").lower())
    return {"lines": draw(st.lists(line, max_size=8)), "row": draw(st.integers(0, 7)), "off": draw(st.integers(0, 8)),
            "cmds": cmds, "ai": draw(st.booleans())}


# J decides the separator from the end of the joined text and the start of the next line after its blanks are dropped: lines made of
# what that rule looks at (blanks, ")", ".", empty and blank-only lines), joined with counts from any row
JLINE = st.lists(st.sampled_from([" ", " ", "\t", ")", ")", ".", "x", "a.", "", "é"]), max_size=5).map("".join)


@st.composite
def joincase(draw):
    cmds = []
    for i in range(draw(st.integers(1, 4))):
        if draw(st.integers(0, 2)) == 0:
            cmds.append({"k": "move", "m": [draw(st.sampled_from(["j", "k", "G", "$", "0"])), None], "c1": 0})
        cmds.append({"k": "join", "c1": draw(st.sampled_from([0, 0, 0, 2, 3, 4, 8]))})
    return {"lines": draw(st.lists(JLINE, min_size=2, max_size=7)), "row": draw(st.integers(0, 5)), "off": draw(st.integers(0, 4)), "cmds": cmds, "ai": draw(st.booleans())}


# line deletions shift the numbered registers 1..9: programs of 8-12 line deletions (so that text reaches registers 8 and 9 and falls off
# the end), with puts of the high registers in between
@st.composite
def shiftcase(draw):
    cmds = []
    for i in range(draw(st.integers(8, 12))):
        cmds.append({"k": "op", "op": "d", "reg": draw(st.sampled_from(["", "", "", "a", "A"])), "c1": draw(st.sampled_from([0, 0, 0, 2])), "c2": 0,
                     "m": ["same", None], "typed": None})
        if draw(st.integers(0, 3)) == 0:
            cmds.append({"k": "put", "key": draw(st.sampled_from("pP")), "reg": draw(st.sampled_from("56789")), "c1": 0})
        if draw(st.integers(0, 4)) == 0:
            cmds.append({"k": "move", "m": [draw(st.sampled_from(["j", "k", "G"])), None], "c1": 0})
    n = draw(st.integers(12, 26))
    return {"lines": ["%c%d" % (97 + i % 26, i) if i % 5 else "é%d 日" % i for i in range(n)], "row": draw(st.integers(0, 3)), "off": 0,
            "cmds": cmds, "ai": False}


def strategy(tier):
    return st.one_of(case(), case(), case(), case(), case(), case(), case(), joincase(), shiftcase())


OPKEY = {"d": "d", "c": "c", "y": "y", "<": "<", ">": ">", "g~": "~", "gu": "u", "gU": "U"}


def regpfx(r):
    return "" if r == "" else '"' + r


def keys_of(c):
    ks = [":se ai\n" if c.get("ai") else ":se noai\n"]
    if c["lines"]:
        ks.append("%dG0" % (min(c["row"], len(c["lines"]) - 1) + 1))
        if c["off"]:
            ks.append("%d " % c["off"])
    for x in c["cmds"]:
        k = x["k"]
        n1 = str(x.get("c1")) if x.get("c1") else ""
        if k == "op":
            n2 = str(x["c2"]) if x["c2"] else ""
            op = x["op"]
            if x["m"][0] == "same":
                m = op[-1] if len(op) == 1 else op      # dd, yy, >>, g~g~ is not accepted: the doubled form of g~ is g~~ / g~g~? use the last key
                if len(op) == 2:
                    m = op[1]
            else:
                m = x["m"][0] + (x["m"][1] or "")
            s = regpfx(x["reg"]) + n1 + op + n2 + m
            if op == "c":
                s += x["typed"] + "\x1b"
            ks.append(s)
        elif k == "short":
            s = regpfx(x["reg"]) + n1 + x["key"]
            if x["key"] in "CsS":
                s += x["typed"] + "\x1b"
            ks.append(s)
        elif k == "put":
            ks.append(regpfx(x["reg"]) + n1 + x["key"])
        elif k == "join":
            ks.append(n1 + "J")
        elif k == "repl":
            ks.append(n1 + "r" + x["ch"])
        elif k == "ins":
            ks.append(x["key"] + x["typed"] + "\x1b")
        elif k == "mark":
            ks.append("m" + x["ch"])
        else:
            ks.append(n1 + x["m"][0] + (x["m"][1] or ""))
    return "".join(ks)


def simulate(c, t):
    v = vim.ViEd(c["lines"], 24, t)
    v.ai = bool(c.get("ai"))
    info = {"multiline": False, "inclusive": False, "revealed": False, "touched": set()}
    if c["lines"]:
        v.move("G", min(c["row"], len(c["lines"]) - 1) + 1)
        v.move("0")
        if c["off"]:
            v.move(" ", c["off"])
    for x in c["cmds"]:
        k = x["k"]
        r0 = v.row
        n_before = len(v.ln)
        if k == "op":
            ok = v.operator(OPKEY[x["op"]], x["reg"], x["c1"], x["c2"], x["m"][0], x["m"][1], x.get("typed"))
            if not ok:
                v.wfix()
            if x["m"][0] in ("same", "j", "k", "G", "+", "-", "_", "{", "}", "H", "L", "'") or len(v.ln) != n_before:
                info["multiline"] = True
            if x["m"][0] in "fFtTeE%":
                info["inclusive"] = True
            if x["op"] in "dcy":
                info["touched"].add((x["reg"] or "").lower())
        elif k == "short":
            key = x["key"]
            if key == "x":
                v.operator("d", x["reg"], x["c1"], 0, " ")
            elif key == "X":
                v.operator("d", x["reg"], x["c1"], 0, "\x7f")
            elif key == "D":
                v.operator("d", x["reg"], x["c1"], 0, "$")
            elif key == "Y":
                v.operator("y", x["reg"], x["c1"], 0, "same")
            elif key == "~":
                v.operator("~", x["reg"], x["c1"], 0, " ")
            elif key == "C":
                v.operator("c", x["reg"], x["c1"], 0, "$", None, x["typed"])
            elif key == "s":
                v.operator("c", x["reg"], x["c1"], 0, " ", None, x["typed"])
            elif key == "S":
                v.operator("c", x["reg"], x["c1"], 0, "same", None, x["typed"])
            if key in "xXDYCsS":
                info["touched"].add((x["reg"] or "").lower())
            if x.get("c1", 0) > 3:
                info["inclusive"] = True
        elif k == "put":
            if v.put(x["key"], x["reg"], x["c1"]) and x["reg"] in info["touched"]:
                info["revealed"] = True
        elif k == "join":
            v.join(x["c1"])
        elif k == "repl":
            v.replace(x["c1"], x["ch"])
        elif k == "ins":
            v.insert(x["key"], x["typed"])
        elif k == "mark":
            v.setmark(x["ch"])
        else:
            v.move(x["m"][0], x["c1"], x["m"][1])
    return v, info


_tabs = {}
DUMPREGS = ["", "a", "b", "c", "1", "2", "3", "4", "5", "6", "7", "8", "9"]


def run_case(env, c):
    if "t" not in _tabs:
        _tabs["t"] = layout.Tables(env.paths["src"])
    t = _tabs["t"]
    try:
        v, info = simulate(c, t)
    except ValueError as e:
        return Outcome(True, False, ["excluded_unmodelled"], detail=str(e))
    keys = keys_of(c)
    # register dump: after the cursor marker, each register is put on a fresh line at the end
    dump = "".join("Go=%s=\x1b%sp" % (r or "un", regpfx(r)) for r in DUMPREGS)
    d = env.fresh()
    runner.write_file(d, "f", gen.to_bytes(c["lines"]))
    stdin = (keys + "\x1b\x1b:se noai\ni" + viutil.MARK + "\x1b" + dump + "\x1b:%w! out\n").encode("utf-8") + runner.VI_TRAILER
    r = runner.run_editor(env.paths["vi"], ["-v", "f"], stdin, d, rows=24, cols=100, want_stats=False)
    nt = sum(bool(info[k]) for k in ("multiline", "inclusive", "revealed")) >= 2
    cl = [k for k in ("multiline", "inclusive", "revealed") if info[k]]
    if r.timeout:
        return Outcome(True, False, cl + ["timeout"], inconclusive=True)
    if r.crashed():
        return Outcome(False, nt, cl, detail={"why": "editor crashed", "sig": r.signature(), "keys": keys})
    out = runner.read_file(d, "out")
    if out is None:
        return Outcome(False, nt, cl, detail={"why": "no output", "keys": keys})
    # expected: model text with the marker, then the dump executed on the model
    v.ai = False
    v.insert("i", viutil.MARK)
    for reg in DUMPREGS:
        v.move("G")
        v.insert("o", "=%s=" % (reg or "un"))
        v.put("p", reg, 0)
    want = gen.to_bytes(v.ln)
    if out != want:
        return Outcome(False, nt, cl, detail={"why": "text / cursor / registers differ from the reference", "keys": keys, "lines": c["lines"],
                                             "got": out, "want": want})
    return Outcome(True, nt, cl)
