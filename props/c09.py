"""C09 - repeat, macro and count: '.', '@r' and N-fold equal retyping (metamorphic, no model)."""
from hypothesis import strategies as st

from engine.core import Outcome
from engine import runner
from . import gen

ID = "C09"
LEVEL = "exploration"
RULE = ("Hypothesis: prefix program P (0-5 commands), change command c from the repeat set (with count and register prefixes, inserts with "
        "multi-byte text, prompting filters), optional motion M, repeat count N in 1..4, suffix S; run A = P c M N. S against run B = P c M c^N S; "
        "likewise P 0\"ry$ N@r S against P 0\"ry$ body^N S with the body stored in a buffer line, and @@ against @r.  Equal: written file, cursor "
        "marker, register dump (a b r \" 1 2).  Non-trivial = c changed the text and a motion separates c from the repeat; distinct by SHA-1")
ASSUMPTIONS = ["register bodies may contain . in any position (F12 repaired); nested @ inside a body is not generated (unbounded recursion risk)",
               "recorded commands are far shorter than the 4 KiB recording buffer"]

ESC = "\x1b"
TXT = ["foo", "é日", "a b", "x\ny", "", " ", "bar\x08z", "q\x17w", "fo\x00ba", "\x00", "a\x16\x00b"]      # (^@ is a key like any other in the record)
CHANGES = ["x", "3x", "X", "2X", "dd", "2dd", "dw", "2dw", "d$", "D", "dj", "dk", "de", "db", "d0", "J", "3J", "p", "P", "2p", "3P", ">>", "2>>", "<<", ">j",
           "~", "4~", "g~w", "gUw", "guu", "gUU", "g~~", "rZ", "2rQ", "ré", "r\x00", "yy", "yw", "Y", "2yy", "\"ayy", "\"Ayw", "\"add", "\"ap", "\"bdw", "\"bP", "\"Add",
           "!!tr a-z A-Z\n", "!jsort\n", "!}sed s/^/Q/\n", "dfo", "dta", "d;", "dG", "d}", "d{",
           # operators whose motion prompts for a pattern
           "d/ba\n", "d/o\n", "d?o\n", "y/two\n", "dn", "dN", "2d/o\n"]
# (no c/pattern: when the search fails the recorded change is only "c/pattern<CR>" and its text is typed as commands, so that a later
#  "." is not comparable with retyping - a harness artefact found when these were first added)
INSERTS = ["i", "a", "I", "A", "o", "O", "s", "S", "C", "cw", "c$", "cc", "2cw", "cj", "cb", "3s", "2cc"]
MOTIONS = ["j", "k", "l", "h", "w", "b", "e", "$", "0", "^", "G", "1G", "2j", "3l", "W", "fo", ";", "}", "{", "+", "-"]


def prepare(build, tier):
    return {"vi": build.vi_plain()}


def budget(tier):
    return (700, 16) if tier == "quick" else (10000, 16)


change = st.one_of(st.sampled_from(CHANGES), st.sampled_from(CHANGES),
                   st.tuples(st.sampled_from(INSERTS), st.sampled_from(TXT)).map(lambda t: t[0] + t[1] + ESC))
cmdtok = st.one_of(change, st.sampled_from(MOTIONS), st.sampled_from(MOTIONS))


@st.composite
def case(draw):
    nl = draw(st.integers(1, 7))
    lines = [draw(st.sampled_from(["foo bar baz", "one two", "  indented text", "x", "", "a.b(c)", "é 日本 z", "word1 word2 word3", "\ttab o"])) +
             (" %d" % i if i % 2 else "") for i in range(nl)]
    kind = draw(st.sampled_from(["dot", "dot", "dot", "reg", "regat"]))
    P = draw(st.lists(cmdtok, max_size=5))
    S = draw(st.lists(cmdtok, max_size=3))
    N = draw(st.integers(1, 4))
    if kind == "dot":
        return {"kind": kind, "lines": lines, "P": P, "c": draw(change), "M": draw(st.lists(st.sampled_from(MOTIONS), max_size=2)), "N": N, "S": S}
    # (^L re-initialises the terminal in the middle of the body: what is still pending of the register must survive that)
    body = draw(st.lists(st.one_of(cmdtok, cmdtok, st.just("."), st.just("2."), st.just("\x0c")).filter(lambda t: "\n" not in t and "\x00" not in t), min_size=1, max_size=5))     # (the macro is stored in one NUL-free buffer line)     # the macro is stored in one buffer line
    return {"kind": kind, "lines": lines, "P": P, "body": body, "N": N, "S": S}


def strategy(tier):
    return case()


DUMP = "".join("Go=%s=%s\"%sp" % (r if r != '"' else "dq", ESC, r) for r in ["a", "b", "r", '"', "1", "2"])


def run(env, lines, keys):
    d = env.fresh()
    runner.write_file(d, "f", gen.to_bytes(lines))
    stdin = (":se noic\n" + keys + ESC + ESC + "i§" + ESC + DUMP + ESC + ":%w! out\n").encode("utf-8") + runner.VI_TRAILER
    r = runner.run_editor(env.paths["vi"], ["-v", "f"], stdin, d, rows=12, cols=70, want_stats=False)
    return r, runner.read_file(d, "out")


def run_case(env, c):
    lines = list(c["lines"])
    P, S, N = "".join(c["P"]), "".join(c["S"]), c["N"]
    if c["kind"] == "dot":
        M = "".join(c["M"])
        ka = P + c["c"] + M + (str(N) if N > 1 else "") + "." + S
        kb = P + c["c"] + M + c["c"] * N + S
        kref = P + M + S
    else:
        body = "".join(c["body"])
        lines = lines + [body]            # the macro lives in the last buffer line and is yanked character-wise
        load = "G0\"ry$1Gyl"          # (yl: so that a leading . in the body repeats a harmless yank, not the loader that writes register r)
        if c["kind"] == "reg":
            ka = load + P + (str(N) if N > 1 else "") + "@r" + S
            kb = load + P + body * N + S
        else:
            ka = load + P + "@r" + (str(N) if N > 1 else "") + "@@" + S
            kb = load + P + body + body * N + S
        kref = load + P + S
    ra, oa = run(env, lines, ka)
    rb, ob = run(env, lines, kb)
    cl = ["kind_" + c["kind"], "N_%d" % N]
    if ra.timeout or rb.timeout:
        return Outcome(True, False, cl + ["timeout"], inconclusive=True)
    if ra.crashed() or rb.crashed():
        return Outcome(False, False, cl, detail={"why": "editor crashed", "sig": (ra if ra.crashed() else rb).signature(), "keysA": ka, "keysB": kb})
    rr, oref = run(env, lines, kref)
    changed = oref != ob
    nt = changed and (c["kind"] != "dot" or bool(c["M"]))
    if oa != ob:
        return Outcome(False, nt, cl, detail={"why": "repeat/macro run differs from retyping", "keys_repeat": ka, "keys_retyped": kb, "lines": lines,
                                             "out_repeat": oa, "out_retyped": ob})
    return Outcome(True, nt, cl + (["changed"] if changed else ["unchanged"]))
