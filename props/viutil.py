"""Helpers for vi-mode checks: run keys, observe text and cursor through a marker character."""
from engine import runner
from . import gen

MARK = "§"


def run_vi(env, lines, keys, rows=24, cols=80, pre="", binary="vi", want_stats=True, extra_files=None):
    """returns (r, out_lines or None, cursor (row, off) or None).  The cursor is observed by inserting MARK before the
    cursor character after the keys (and an ESC that quiesces pending input)."""
    d = env.fresh()
    runner.write_file(d, "f", gen.to_bytes(lines))
    for k, v in (extra_files or {}).items():
        runner.write_file(d, k, v)
    stdin = (pre + keys + "\x1b\x1bi" + MARK + "\x1b:%w! out\n").encode("utf-8") + runner.VI_TRAILER
    r = runner.run_editor(env.paths[binary], ["-v", "f"], stdin, d, rows=rows, cols=cols, want_stats=want_stats)
    out = runner.read_file(d, "out")
    if out is None:
        return r, None, None, d
    try:
        txt = out.decode("utf-8")
    except UnicodeDecodeError:
        return r, None, None, d
    ls = txt.split("\n")
    if ls and ls[-1] == "":
        ls.pop()
    cur = None
    for i, l in enumerate(ls):
        if MARK in l:
            cur = (i, l.index(MARK))
            ls[i] = l.replace(MARK, "", 1)
            break
    return r, ls, cur, d
